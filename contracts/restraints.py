"""Contracts for the geometric / direction / distance predicates of polyply/src/random_walk.py (C07).

Each predicate gets (i) its geometric meaning, written from the statement of C07, as postcondition proved on the real body and
(ii) a definitional clause naming its result by an uninterpreted symbol (pure deterministic function of its arguments) so that
update_positions' contract can say "the accepted point satisfied the predicate" and callers can unfold the meaning."""
import z3
from pyvc.types import (TInt, TReal, TBool, TStr, TNode, TObj, TTuple, TVec, TList, TDict, TRec, TOpt, NArr, key_term)
from pyvc.contract import Contract, Registry, Loop
from pyvc import ops
from contracts import random_walk as W
from contracts import nonbond as N

REG = Registry()
from contracts.rw_types import V3, RESTRAINT, NODEATTR, METAMOL, WALK, ENGINE    # noqa: E402


def r3(p):
    return [ops.real(x) for x in p.data]


def dist2(p, q):
    return z3.Sum(*[(a - b) * (a - b) for a, b in zip(r3(p), r3(q))])


def absr(x):
    return z3.If(x >= 0, x, -x)


def is_in(s):
    return ops.S(s) == z3.StringVal("in")


def is_out(s):
    return ops.S(s) == z3.StringVal("out")


# ---- sphere: 'in'  => |p - c| <= r ;  'out' => |p - c| >= r
def sphere_ok(point, prm):
    f = prm.fields
    d = ops.SQRT(z3.simplify(dist2(f["centre"], point)))
    r = ops.real(f["a"])
    return z3.And(z3.Implies(is_in(f["in_out"]), d <= r), z3.Implies(is_out(f["in_out"]), d >= r))


IN_SPHERE = REG.add(Contract(
    "polyply.src.random_walk:in_sphere", params=dict(point=V3, parameters=RESTRAINT), result=TBool,
    ensures={"a point is only accepted on the demanded side of the sphere": "implies(result, sphere_ok(point, parameters))"},
    spec_fns={"sphere_ok": sphere_ok}, props=("C07",)))


# ---- rectangle: 'in' => |p_i - c_i| < half length in all three ; 'out' => not all three
def rectangle_ok(point, prm):
    f = prm.fields
    inside = z3.And(*[absr(c - p) < ops.real(h) for c, p, h in zip(r3(f["centre"]), r3(point), (f["a"], f["b"], f["c"]))])
    return z3.And(z3.Implies(is_in(f["in_out"]), inside), z3.Implies(is_out(f["in_out"]), z3.Not(inside)))


IN_RECTANGLE = REG.add(Contract(
    "polyply.src.random_walk:in_rectangle", params=dict(point=V3, parameters=RESTRAINT), result=TBool,
    requires={"a rectangle restraint": "parameters.kind == 'rectangle'"},
    ensures={"a point is only accepted on the demanded side of the box": "implies(result, rectangle_ok(point, parameters))"},
    spec_fns={"rectangle_ok": rectangle_ok}, props=("C07",)))


# ---- z-aligned cylinder: 'in' => radial < r and |dz| < h ; 'out' => radial > r or |dz| > h  (soundness: the code's 'out' test is stricter)
def cylinder_sound(point, prm):
    f = prm.fields
    c, p = r3(f["centre"]), r3(point)
    rad = ops.SQRT(z3.simplify((c[0] - p[0]) * (c[0] - p[0]) + (c[1] - p[1]) * (c[1] - p[1])))
    dz = c[2] - p[2]
    r, h = ops.real(f["a"]), ops.real(f["b"])
    return z3.And(z3.Implies(is_in(f["in_out"]), z3.And(rad < r, absr(dz) < h)),
                  z3.Implies(is_out(f["in_out"]), z3.Or(rad > r, absr(dz) > h)),
                  z3.Or(is_in(f["in_out"]), is_out(f["in_out"])))


IN_CYLINDER = REG.add(Contract(
    "polyply.src.random_walk:in_cylinder", params=dict(point=V3, parameters=RESTRAINT), result=TBool,
    requires={"a cylinder restraint": "parameters.kind == 'cylinder'"},
    ensures={"a point is only accepted on the demanded side of the cylinder": "implies(result, cylinder_sound(point, parameters))"},
    spec_fns={"cylinder_sound": cylinder_sound}, props=("C07",)))


# ---- all restraints of a residue
NODE_GEOM = NODEATTR
i_ = z3.Int("i_")


def kind_is(prm, k):
    return ops.S(prm.fields["kind"]) == z3.StringVal(k)


def restraint_ok(point, prm):
    return z3.And(z3.Implies(kind_is(prm, "sphere"), sphere_ok(point, prm)),
                  z3.Implies(kind_is(prm, "rectangle"), rectangle_ok(point, prm)),
                  z3.Implies(kind_is(prm, "cylinder"), cylinder_sound(point, prm)))


def all_restraints_ok(point, node_dict, upto=None):
    rs = node_dict.fields["restraints"]
    lst = rs.val
    n = lst.n if upto is None else upto
    from pyvc.types import slist_get
    body = restraint_ok(point, slist_get(lst, i_))
    return z3.Implies(z3.Not(rs.none), z3.ForAll([i_], z3.Implies(z3.And(0 <= i_, i_ < n), body)))


FULFILL_C = REG.add(Contract(
    "polyply.src.random_walk:fulfill_geometrical_constraints", params=dict(point=V3, node_dict=NODE_GEOM), result=TBool,
    requires={"every restraint is of a known kind": "known_kinds(node_dict)"},
    ensures={"a point is only accepted if every declared restraint holds for it": "implies(result, all_restraints_ok(point, node_dict))"},
    loops={0: Loop({"checked so far": "all_restraints_ok(point, node_dict, k)"})},     # point / node_dict are not assigned in the loop: no frame clause needed
    spec_fns={"all_restraints_ok": all_restraints_ok,
              "known_kinds": lambda nd: z3.Implies(z3.Not(nd.fields["restraints"].none), z3.ForAll([i_], z3.Implies(z3.And(0 <= i_, i_ < nd.fields["restraints"].val.n),
                                                   z3.Or(*[nd.fields["restraints"].val.comps[-1][i_] == z3.StringVal(k) for k in ("sphere", "rectangle", "cylinder")])))),
              "node_dict_same": lambda a, b: NODE_GEOM.eq(a, b)},
    props=("C07",)))


# ---- direction restriction -----------------------------------------------------------------------------
NODE_RW = NODEATTR


def sign_r(x):
    return z3.If(x > 0, z3.RealVal(1), z3.If(x < 0, z3.RealVal(-1), z3.RealVal(0)))


def angle_deg(n, d):
    """angle between two vectors in degrees, as polyply computes it: degrees(arccos(u(n) . u(d)))"""
    from pyvc.prelude import DEGREES
    nn = ops.SQRT(z3.simplify(z3.Sum(*[x * x for x in n])))
    nd = ops.SQRT(z3.simplify(z3.Sum(*[x * x for x in d])))
    return DEGREES(ops.ARCCOS(z3.Sum(*[(a / nn) * (b / nd) for a, b in zip(n, d)])))


def direction_ok(point, old_point, node_dict):
    rw = node_dict.fields["rw_options"]
    normal, ref = rw.val.comps[0:3], rw.val.comps[3]
    n = [c[0] for c in normal]
    refa = ref[0]
    d = [a - b for a, b in zip(r3(point), r3(old_point))]
    ndot = z3.Sum(*[a * b for a, b in zip(n, d)])
    return z3.Implies(z3.Not(rw.none), z3.And(sign_r(ndot) == sign_r(refa), angle_deg(n, d) <= absr(refa)))


def direction_pre(point, old_point, node_dict):
    rw = node_dict.fields["rw_options"]
    n = [c[0] for c in rw.val.comps[0:3]]
    return z3.Implies(z3.Not(rw.none), z3.And(rw.val.n >= 1, z3.Sum(*[x * x for x in n]) > 0, dist2(point, old_point) > 0))


IS_RESTRICTED = REG.add(Contract(
    "polyply.src.random_walk:is_restricted", params=dict(point=V3, old_point=V3, node_dict=NODE_RW), result=TBool,
    requires={"a non-zero normal and a non-zero step (numpy would produce nan otherwise)": "direction_pre(point, old_point, node_dict)"},
    ensures={"a step is only accepted if it has the sign of the reference angle w.r.t. the plane normal and its angle to the normal is within |reference angle|":
             "implies(result, direction_ok(point, old_point, node_dict))"},
    spec_fns={"direction_ok": direction_ok, "direction_pre": direction_pre},
    inline_callees=["polyply.src.linalg_functions:_vector_angle_degrees", "polyply.src.linalg_functions:_u_vect"],
    props=("C07",)))


# ---- distance restraints ("milestones") ----------------------------------------------------------------
PMD = z3.Function("pbc_min_dist", *([z3.RealSort()] * 9 + [z3.RealSort()]))       # names the result of NonBondEngine.pbc_min_dist
NODE_DR = NODEATTR
MOL_DR = METAMOL
WALK_DR = WALK

REG.add(W.ENG_GET_POINT)
PMD_NAMED = REG.add(Contract(
    "polyply.src.nonbond_engine:NonBondEngine.pbc_min_dist", params=dict(self=W.ENGINE, pos_a=V3, pos_b=V3), result=TReal,
    requires={"positive box": "all([d > 0 for d in self.boxsize])"},
    ensures={"euclidean norm of the per-component minimum images (proved on the body in C16)": "is_min_image_dist(result, pos_a, pos_b, self.boxsize)"},
    defines={"names the result": "result == PMD(*r3(pos_a), *r3(pos_b), *r3(self.boxsize))"},
    spec_fns={"is_min_image_dist": N.is_min_image_dist, "PMD": PMD, "r3": r3}, trusted=True,
    note="same postcondition as contracts/nonbond.py:PBC_MIN_DIST (proved); the naming clause is justified by lemma_min_image_unique"))


def lemma_min_image_unique(ctx):
    """the relational contract of pbc_min_dist determines its result: r >= 0 and r^2 = X has at most one solution"""
    r1, r2, X = z3.Reals("r1 r2 X")
    return [("r >= 0 and r^2 = X determine r", [r1 >= 0, r2 >= 0, r1 * r1 == X, r2 * r2 == X], r1 == r2)]


def milestones_ok(self_, node, pos, upto=None):
    """every distance restraint (ref, upper, lower) of the residue holds for the minimum-image distance to ref's position"""
    from pyvc.types import slist_get
    nodes = self_.fields["molecule"].fields["nodes"]
    attrs = nodes.v.unflat([c[node] for c in nodes.comps])
    dr = attrs.fields["distance_restraints"]
    lst = dr.val
    n = lst.n if upto is None else upto
    posd = self_.fields["nonbond_matrix"].fields["posd"]
    box = self_.fields["nonbond_matrix"].fields["boxsize"]
    ref = lst.comps[0][i_]
    kt = key_term(posd.k, (self_.fields["mol_idx"], ref))
    refpos = [c[kt] for c in posd.comps]
    dist = PMD(*r3(pos), *refpos, *r3(box))
    return z3.Implies(z3.Not(dr.none), z3.ForAll([i_], z3.Implies(z3.And(0 <= i_, i_ < n), z3.And(lst.comps[2][i_] <= dist, dist <= lst.comps[1][i_]))))


def refs_positioned(self_, node):
    nodes = self_.fields["molecule"].fields["nodes"]
    attrs = nodes.v.unflat([c[node] for c in nodes.comps])
    dr = attrs.fields["distance_restraints"]
    posd = self_.fields["nonbond_matrix"].fields["posd"]
    return z3.Implies(z3.Not(dr.none), z3.ForAll([i_], z3.Implies(z3.And(0 <= i_, i_ < dr.val.n), W.has(posd, self_.fields["mol_idx"], dr.val.comps[0][i_]))))


MILESTONES_C = REG.add(Contract(
    "polyply.src.random_walk:RandomWalk.checks_milestones",
    params=dict(self=WALK_DR, current_node=TNode, current_position=V3, fudge=TReal), result=TBool,
    requires={"the residue is a node of the molecule": "current_node in self.molecule.nodes",
              "reference residues are positioned before the residues restrained to them (set_distance_restraint orders them along the search tree)": "refs_positioned(self, current_node)",
              "positive box": "all([d > 0 for d in self.nonbond_matrix.boxsize])"},
    ensures={"a position is only accepted if every distance restraint of the residue holds (minimum image)": "implies(result, milestones_ok(self, current_node, current_position))",
             "pure": "WALK_DR_eq(self, old(self))"},
    loops={0: Loop({"checked so far": "milestones_ok(self, current_node, current_position, k)"})},    # self / arguments are not assigned in the loop
    spec_fns={"milestones_ok": milestones_ok, "refs_positioned": refs_positioned, "WALK_DR_eq": lambda a, b: WALK_DR.eq(a, b)},
    props=("C07",)))


# ---- composition with the placement loop (C05 / C17 units) -------------------------------------------------------------------
def lemma_accepted_point_meets_restraints(ctx):
    """glue between two sets of proved contracts.  RandomWalk.update_positions is proved (contracts/random_walk.py) to accept a point
    only if the RESULT of fulfill_geometrical_constraints / is_restricted for that point was True -- there the results are named by
    the uninterpreted predicates FULFILL / RESTRICT.  The contracts proved here say what a True result means.  Instantiating the second
    (universally quantified over all inputs, with the result named) at the accepted point gives the statement of C07 for every
    generated residue: the geometric restraints hold at the accepted point and the step has the demanded direction."""
    from contracts import random_walk as RW
    from contracts.rw_types import NODEATTR, V3 as V3_
    T = NODEATTR

    def quantified(name, free, body):
        vs = []
        for v in free:
            vs += [x for x in v if z3.is_const(x)]
        return z3.ForAll(vs, body)
    # universally quantified form of the C07 contracts (point p, attributes a), result named by the predicate of contracts/random_walk.py
    p, q, a = V3_.fresh("p"), V3_.fresh("q"), T.fresh("a")
    pf = [ops.real(x) for x in p.data]
    qf = [ops.real(x) for x in q.data]
    af = T.flat(a)
    known = FULFILL_C.spec_fns["known_kinds"](a)
    h_geo = z3.ForAll([x for x in p.data] + af, z3.Implies(z3.And(known, RW.FULFILL(*pf, *af)), all_restraints_ok(p, a)))
    h_dir = z3.ForAll([x for x in p.data] + [x for x in q.data] + af,
                      z3.Implies(z3.And(direction_pre(p, q, a), RW.RESTRICT(*pf, *qf, *af)), direction_ok(p, q, a)))
    # the accepted point of update_positions (clauses of accepted_point_ok)
    newp, unw, last, cur = V3_.fresh("new_point"), V3_.fresh("unwrapped_point"), V3_.fresh("last_point"), T.fresh("cur_attrs")
    cf = T.flat(cur)
    facts = [RW.FULFILL(*[ops.real(x) for x in newp.data], *cf), RW.RESTRICT(*[ops.real(x) for x in unw.data], *[ops.real(x) for x in last.data], *cf)]
    return [("an accepted point satisfies every geometric restraint declared for its residue",
             [h_geo, facts[0], FULFILL_C.spec_fns["known_kinds"](cur)], all_restraints_ok(newp, cur)),
            ("an accepted step has the direction its residue's restriction demands",
             [h_dir, facts[1], direction_pre(unw, last, cur)], direction_ok(unw, last, cur))]


# ---- set_distance_restraint: the bounds written for a distance restraint --------------------------------------------------------
from pyvc.types import TNode as _TN, TList as _TL, slist_get as _sg
from contracts.rw_types import TREE as _TREE, METAMOL as _MM

LCA = z3.Function("lowest_common_ancestor", *(_TREE.sorts() + [_TN.sort, _TN.sort, _TN.sort]))
j_ = z3.Int("j_")


def on_tree(tree, x):
    e = tree.fields["edges"]
    return z3.Exists([j_], z3.And(0 <= j_, j_ < e.n, z3.Or(e.comps[0][j_] == x, e.comps[1][j_] == x)))


def path_ok(result, graph, node, start_node):
    """assumed for get_all_predecessors on a search tree: the tree path from start_node down to node, without repetitions"""
    return z3.And(result.n >= 2, _sg(result, z3.IntVal(0)) == start_node, _sg(result, result.n - 1) == node,
                  z3.ForAll([i_, j_], z3.Implies(z3.And(0 <= i_, i_ < j_, j_ < result.n), _sg(result, i_) != _sg(result, j_))),
                  z3.ForAll([i_], z3.Implies(z3.And(0 <= i_, i_ < result.n), on_tree(graph, _sg(result, i_)))))


REG.add(Contract("networkx.algorithms:lowest_common_ancestor", params=dict(G=_TREE, node1=_TN, node2=_TN), result=_TN,
                 defines={"names the result": "result == LCA(*tree_flat(G), node1, node2)"},
                 spec_fns=dict(LCA=LCA, tree_flat=lambda g: _TREE.flat(g)), trusted=True, note="networkx"))
REG.add(Contract("polyply.src.graph_utils:get_all_predecessors", params=dict(graph=_TREE, node=_TN, start_node=_TN), result=_TL(_TN),
                 ensures={"the tree path from start_node to node, each residue once": "path_ok(result, graph, node, start_node)"},
                 spec_fns=dict(path_ok=path_ok), trusted=True,
                 note="walks networkx DiGraph.predecessors of the search tree upwards (assumed: terminates at start_node, which the caller "
                      "established to be an ancestor)"))


def appended_bounds(mol, old_mol, x, ref, upper, lower):
    """the residue's list of distance restraints = what it was (or empty) + [(ref, upper, lower)]"""
    nd, od = mol.fields["nodes"], old_mol.fields["nodes"]
    new = nd.v.unflat([c[x] for c in nd.comps]).fields["distance_restraints"]
    old = od.v.unflat([c[x] for c in od.comps]).fields["distance_restraints"]
    n0 = z3.If(old.none, 0, old.val.n)
    last = _sg(new.val, n0)
    return z3.And(z3.Not(new.none), new.val.n == n0 + 1, last[0] == ref, ops.real(last[1]) == upper, ops.real(last[2]) == lower,
                  z3.ForAll([j_], z3.Implies(z3.And(0 <= j_, j_ < n0), z3.And(*[a[j_] == b[j_] for a, b in zip(new.val.comps, old.val.comps)]))))


def effective(molecule, target_node, ref_node):
    """(reference, target) after the swap the function makes when the target is the ancestor"""
    anc = LCA(*_TREE.flat(molecule.fields["search_tree"]), target_node, ref_node)
    swap = anc == target_node
    return z3.If(swap, target_node, ref_node), z3.If(swap, ref_node, target_node), anc


def target_bounds(mol, old_mol, target_node, ref_node, distance, avg_step_length, tolerance):
    """C07: the restrained residue must end within [d - tol, d + tol + one average step] of its reference"""
    ref, tgt, _anc = effective(old_mol, target_node, ref_node)
    d, a, t = ops.real(distance), ops.real(avg_step_length), ops.real(tolerance)
    return appended_bounds(mol, old_mol, tgt, ref, a + d + t, d - t)


def on_tree(tree, x):
    e = tree.fields["edges"]
    return z3.Exists([j_], z3.And(0 <= j_, j_ < e.n, z3.Or(e.comps[0][j_] == x, e.comps[1][j_] == x)))


def bounds_so_far(mol, old_mol, path, gdr, gdt, ref, tgt, distance, avg, tol, upto):
    """residues at positions 1 .. upto-1 of the path carry their bounds (written with the function's own distance tables); every other
    residue is as before"""
    d, a, t = ops.real(distance), ops.real(avg), ops.real(tol)
    x = _sg(path, i_)
    r = lambda dct, key: z3.ToReal(dct.comps[0][key])      # noqa: E731
    upper = z3.If(x == tgt, a + d + t, ops.RMUL(r(gdt, x), a) + d + t)
    lower = ops.RMUL(ops.RDIV(d, r(gdt, ref)), r(gdr, x)) - t
    nd, od = mol.fields["nodes"], old_mol.fields["nodes"]
    pos = gdr.comps[0][x_n]
    done = z3.And(z3.Select(gdr.dom, x_n), 1 <= pos, pos < upto)
    return z3.And(
        z3.ForAll([i_], z3.Implies(z3.And(1 <= i_, i_ < upto), appended_bounds(mol, old_mol, x, ref, upper, lower))),
        z3.ForAll([x_n], z3.Implies(z3.Not(done), z3.And(*[c[x_n] == o[x_n] for c, o in zip(nd.comps, od.comps)]))),
        nd.dom == od.dom)


def tables_ok(path, gdr, gdt):
    """what the two dictionary comprehensions give on a path without repetitions: position from the reference, distance to the target"""
    x = _sg(path, i_)
    return z3.And(z3.ForAll([i_], z3.Implies(z3.And(0 <= i_, i_ < path.n), z3.And(z3.Select(gdr.dom, x), gdr.comps[0][x] == i_,
                                                                                z3.Select(gdt.dom, x), gdt.comps[0][x] == path.n - 1 - i_))),
                  gdr.dom == gdt.dom)


x_n = z3.Const("xn_", _TN.sort)

SET_DR = REG.add(Contract(
    "polyply.src.restraints:set_distance_restraint",
    params=dict(molecule=_MM, target_node=_TN, ref_node=_TN, distance=TReal, avg_step_length=TReal, tolerance=TReal),
    requires={"the residues of the search tree are residues of the molecule": "tree_in_molecule(molecule)"},
    raises=[("OSError", "neither_is_ancestor(molecule, target_node, ref_node)")],
    ensures={"the restrained residue gets the bounds [distance - tolerance, distance + tolerance + one average step] relative to its reference":
             "target_bounds(molecule, old(molecule), old(target_node), old(ref_node), distance, avg_step_length, tolerance)"},
    modifies=["molecule.nodes"],
    loops={0: Loop({"bounds written so far": "bounds_so_far(molecule, old(molecule), path, graph_distances_ref, graph_distances_target, ref_node, target_node, distance, avg_step_length, tolerance, k)",
                    "the distance tables": "tables_ok(path, graph_distances_ref, graph_distances_target)",
                    "frame": "same_tree(molecule, old(molecule))"})},
    spec_fns=dict(target_bounds=target_bounds, bounds_so_far=bounds_so_far, tables_ok=tables_ok,
                  muldiv=lambda: z3.ForAll([z3.Real("mx_"), z3.Real("my_")], z3.Implies(z3.Real("my_") != 0, ops.RMUL(ops.RDIV(z3.Real("mx_"), z3.Real("my_")), z3.Real("my_")) == z3.Real("mx_"))),
                  tree_in_molecule=lambda m: z3.ForAll([x_n], z3.Implies(on_tree(m.fields["search_tree"], x_n), z3.Select(m.fields["nodes"].dom, x_n))),
                  neither_is_ancestor=lambda m, t, r: z3.And(effective(m, t, r)[2] != t, effective(m, t, r)[2] != r),
                  same_tree=lambda a, b: z3.And(*[u == v for u, v in zip(_TREE.flat(a.fields["search_tree"]), _TREE.flat(b.fields["search_tree"]))])),
    axioms={"(x / y) * y = x for y != 0 (the only arithmetic fact about the opaque product / quotient that the proof uses)": "muldiv()"},
    opaque_nonlinear=True,
    props=("C07",),
    note="networkx lowest_common_ancestor and get_all_predecessors are assumed callees; products / quotients of two symbolic reals are "
         "uninterpreted in this proof (only congruence and the stated cancellation law are used)"))


# ---- get_all_predecessors proved (it was an assumed callee of set_distance_restraint) -------------------------------------------------
from pyvc.types import TInt as _TI      # noqa: E402
REG_PRE = Registry()
DEPTH = z3.Function("tree_depth", _TN.sort, z3.IntSort())      # ghost: depth of a node in the search tree


def edge(tree, p, c):
    e = tree.fields["edges"]
    return z3.Exists([j_], z3.And(0 <= j_, j_ < e.n, e.comps[0][j_] == p, e.comps[1][j_] == c))


def tree_wellfounded(tree):
    """search-tree fact (networkx dfs_tree / bfs_tree): an edge goes from a node to a deeper one"""
    e = tree.fields["edges"]
    return z3.ForAll([j_], z3.Implies(z3.And(0 <= j_, j_ < e.n), DEPTH(e.comps[0][j_]) < DEPTH(e.comps[1][j_])))


REG_PRE.add(Contract("searchtree:predecessors", params=dict(self=_TREE, n=_TN), result=_TL(_TN),
                     ensures={"the nodes with an edge to n": "all_parents(self, n, result)"},
                     spec_fns=dict(all_parents=lambda t, n, L: z3.ForAll([i_], z3.Implies(z3.And(0 <= i_, i_ < L.n), edge(t, _sg(L, i_), n)))),
                     trusted=True, note="networkx DiGraph.predecessors: every listed node has an edge to n (an empty list when n has no predecessor)"))


def chain_up(L, graph, node, upto=None):
    """L[0] is the node and every later entry is a predecessor of the one before it; entries are pairwise different"""
    n = L.n if upto is None else upto
    return z3.And(L.n >= 1, _sg(L, z3.IntVal(0)) == node,
                  z3.ForAll([i_], z3.Implies(z3.And(0 <= i_, i_ + 1 < L.n), z3.And(edge(graph, _sg(L, i_ + 1), _sg(L, i_)), DEPTH(_sg(L, i_ + 1)) < DEPTH(_sg(L, i_))))))


def path_down(result, graph, node, start_node):
    """the result read from the start node down to the node: consecutive entries are joined by a tree edge, no residue occurs twice"""
    return z3.And(result.n >= 2, _sg(result, z3.IntVal(0)) == start_node, _sg(result, result.n - 1) == node,
                  z3.ForAll([i_], z3.Implies(z3.And(0 <= i_, i_ + 1 < result.n), edge(graph, _sg(result, i_), _sg(result, i_ + 1)))),
                  z3.ForAll([i_, j_], z3.Implies(z3.And(0 <= i_, i_ < j_, j_ < result.n), DEPTH(_sg(result, i_)) < DEPTH(_sg(result, j_)))))


ALL_PRED = REG_PRE.add(Contract(
    "polyply.src.graph_utils:get_all_predecessors", params=dict(graph=_TREE, node=_TN, start_node=_TN), result=_TL(_TN),
    axioms={"search-tree fact: an edge of the tree goes from a node to a deeper one (ghost tree_depth)": "tree_wellfounded(graph)"},
    raises_when={"IndexError": "True"},
    ensures={"the tree path from start_node down to node: consecutive entries joined by a tree edge, strictly deeper from entry to entry (so no residue occurs twice)":
             "path_down(result, graph, node, start_node)",
             "in the form set_distance_restraint uses: from start_node to node, each residue once, every entry on the tree": "path_ok(result, graph, node, start_node)"},
    locals={"predecessors": _TL(_TN)},
    loops={0: Loop({"chain": "chain_up(predecessors, graph, node)", "monotone": "deeper(predecessors)"})},
    spec_fns=dict(tree_wellfounded=tree_wellfounded, chain_up=chain_up, path_down=path_down, path_ok=path_ok,
                  deeper=lambda L: z3.ForAll([i_, j_], z3.Implies(z3.And(0 <= i_, i_ < j_, j_ < L.n), DEPTH(_sg(L, j_)) < DEPTH(_sg(L, i_))))),
    props=("C07",),
    note="partial correctness (the walk ends when it reaches start_node; IndexError when a node without predecessor is reached first); "
         "networkx DiGraph.predecessors through an assumed contract on the edge-list view of the search tree"))

# set_distance_restraint now uses the PROVED contract of get_all_predecessors
REG[ALL_PRED.target] = ALL_PRED
REG.variants[ALL_PRED.target] = [ALL_PRED]
REG.add(REG_PRE["searchtree:predecessors"])


def _witness_all_pred(rnd):
    n = rnd.randint(2, 6)
    labels = rnd.sample(range(6), n)
    parent = {i: rnd.randrange(i) for i in range(1, n)}
    depth = {0: 0}
    for i in range(1, n):
        depth[i] = depth[parent[i]] + 1
    node = rnd.randrange(1, n)
    anc = []
    x = node
    while x != 0:
        x = parent[x]
        anc.append(x)
    start = rnd.choice(anc)
    edges = [(labels[parent[i]], labels[i]) for i in range(1, n)]
    rnd.shuffle(edges)
    dl = {labels[i]: d for i, d in depth.items()}
    return {"graph": {"edges": edges}, "node": labels[node], "start_node": labels[start]}, {"tree_depth": lambda v: dl.get(v, 99)}


def _adapt_all_pred(a):
    import networkx as nx
    g = nx.DiGraph()
    g.add_edges_from(a["graph"]["edges"])
    return {"graph": g, "node": a["node"], "start_node": a["start_node"]}


ALL_PRED.witness, ALL_PRED.adapt = _witness_all_pred, _adapt_all_pred

"""C02: 'every link atom identifies exactly one atom' -- polyply/src/apply_links.py: find_atoms and
match_link_and_residue_atoms.

vermouth.molecule.attributes_match is dependency code: an uninterpreted predicate MATCH(atom attributes, link-node attributes)
(one per ignore list), over ghost identities `_id` of the two attribute mappings."""
import z3
from pyvc.types import (TInt, TStr, TNode, TObj, TTuple, TList, TDict, TRec, TConst, TGraph, CList, SDict, key_term, slist_get)
from pyvc.contract import Contract, Registry, Loop
from pyvc.prelude import attr_match_fn

REG = Registry()
NS = TNode.sort
AT = TRec("nodeattrs", resid=TInt, _id=TObj)                 # atom attributes
LT = TRec("nodeattrs", _id=TObj)                             # link-node attributes
BLOCK = TGraph(AT)
RATTR = TRec("nodeattrs", graph=BLOCK, resid=TInt)
METAMOL = TGraph(RATTR)
LINK = TGraph(LT)
IGNORE = ['order', 'charge_group', 'replace', 'resid']
x_, y_ = z3.Const("x_", NS), z3.Const("y_", NS)
n_ = z3.Const("n_", NS)
i_, j_ = z3.Int("i_"), z3.Int("j_")


def nattrs(g, x):
    nd = g.fields["nodes"]
    return nd.v.unflat([c[x] for c in nd.comps])


def is_node(g, x):
    return z3.Select(g.fields["nodes"].dom, x)


def matches(molecule, ignore, attrs, x):
    return attr_match_fn(list(ignore))(nattrs(molecule, x).fields["_id"], attrs.fields["_id"])


# ---- find_atoms ----------------------------------------------------------------------------------------------------------
def found_sound(molecule, ignore, attrs, Y, upto=None, pos=None):
    e = slist_get(Y, i_)
    seen = z3.BoolVal(True) if pos is None else pos(e) < upto
    return z3.ForAll([i_], z3.Implies(z3.And(0 <= i_, i_ < Y.n), z3.And(is_node(molecule, e), matches(molecule, ignore, attrs, e), seen)))


def found_distinct(Y):
    return z3.ForAll([i_, j_], z3.Implies(z3.And(0 <= i_, i_ < j_, j_ < Y.n), slist_get(Y, i_) != slist_get(Y, j_)))


def found_complete_wit(molecule, ignore, attrs, Y, w, upto, pos):
    wi = w.comps[0][x_]
    return z3.ForAll([x_], z3.Implies(z3.And(is_node(molecule, x_), pos(x_) < upto, matches(molecule, ignore, attrs, x_)),
                                      z3.And(0 <= wi, wi < Y.n, slist_get(Y, wi) == x_)))


def found_complete(molecule, ignore, attrs, Y):
    return z3.ForAll([x_], z3.Implies(z3.And(is_node(molecule, x_), matches(molecule, ignore, attrs, x_)),
                                      z3.Exists([i_], z3.And(0 <= i_, i_ < Y.n, slist_get(Y, i_) == x_))))


def first_two(molecule, ignore, attrs, Y):
    """ground instances of the clauses above at indices 0 and 1 (witnesses for callers that test len(...) > 1)"""
    a, b = slist_get(Y, z3.IntVal(0)), slist_get(Y, z3.IntVal(1))
    return z3.And(z3.Implies(Y.n >= 1, z3.And(is_node(molecule, a), matches(molecule, ignore, attrs, a))),
                  z3.Implies(Y.n >= 2, z3.And(is_node(molecule, b), matches(molecule, ignore, attrs, b), a != b)))


def hook_found(eng, env):
    w, Y, x = env["_fw"], env["__yield__"], env["node_idx"]
    env["_fw"] = SDict(w.k, w.v, w.dom, [z3.Store(w.comps[0], x, Y.n - 1)])


FIND_ATOMS = REG.add(Contract(
    "polyply.src.apply_links:find_atoms",
    params=dict(molecule=BLOCK, ignore=TConst(CList(IGNORE)), attrs=LT), result=TList(TNode),
    ensures={"every yielded atom belongs to the molecule and matches the attributes": "found_sound(molecule, ignore, attrs, result)",
             "every matching atom of the molecule is yielded": "found_complete(molecule, ignore, attrs, result)",
             "no atom is yielded twice": "found_distinct(result)",
             "instances of these clauses for the first two yields": "first_two(molecule, ignore, attrs, result)"},
    locals={"__yield__": TList(TNode)}, ghost_locals={"_fw": TDict(TNode, TInt)},
    ghost={"after:yield node_idx": hook_found},
    loops={0: Loop({"sound": "found_sound(molecule, ignore, attrs, __yield__, k, _pos0)",
                    "complete (ghost index)": "found_complete_wit(molecule, ignore, attrs, __yield__, _fw, k, _pos0)",
                    "distinct": "found_distinct(__yield__)"}, modifies=["_fw", "__yield__"])},
    spec_fns=dict(first_two=first_two, found_sound=found_sound, found_complete=found_complete, found_complete_wit=found_complete_wit, found_distinct=found_distinct),
    props=("C02",), note="instance ignore=['order','charge_group','replace','resid'] (the only call site in apply_links); generator as the list of its yields"))


# ---- match_link_and_residue_atoms ---------------------------------------------------------------------------------------------
def block_of(meta_molecule, link_to_resid, n):
    r = link_to_resid.comps[0][n]
    return nattrs(meta_molecule, r).fields["graph"]


def unique_match(meta_molecule, link, link_to_resid, n, a):
    """a is THE atom of the residue the link node n is assigned to that matches n's attributes"""
    blk = block_of(meta_molecule, link_to_resid, n)
    la = nattrs(link, n)
    return z3.And(is_node(blk, a), matches(blk, IGNORE, la, a),
                  z3.ForAll([y_], z3.Implies(z3.And(is_node(blk, y_), matches(blk, IGNORE, la, y_)), y_ == a)))


def has_unique(meta_molecule, link, link_to_resid, n):
    return z3.Exists([x_], unique_match(meta_molecule, link, link_to_resid, n, x_))


def assigned(meta_molecule, link, link_to_resid, link_to_mol, upto=None, pos=None):
    seen = (lambda n: z3.BoolVal(True)) if pos is None else (lambda n: pos(n) < upto)
    val = link_to_mol.comps[0][n_]
    return z3.And(
        z3.ForAll([n_], z3.Select(link_to_mol.dom, n_) == z3.And(is_node(link, n_), seen(n_))),
        z3.ForAll([n_], z3.Implies(z3.And(is_node(link, n_), seen(n_)), unique_match(meta_molecule, link, link_to_resid, n_, val))))


def some_ambiguous(meta_molecule, link, link_to_resid):
    return z3.Exists([n_], z3.And(is_node(link, n_), z3.Not(has_unique(meta_molecule, link, link_to_resid, n_))))


def wf_inputs(meta_molecule, link, link_to_resid):
    """every link node is assigned to a residue of the molecule, and that residue stands for at least one atom"""
    r = link_to_resid.comps[0][n_]
    blk = nattrs(meta_molecule, r).fields["graph"]
    return z3.ForAll([n_], z3.Implies(is_node(link, n_), z3.And(z3.Select(link_to_resid.dom, n_), is_node(meta_molecule, r),
                                                               z3.Exists([x_], is_node(blk, x_)))))


MATCH_LINK = REG.add(Contract(
    "polyply.src.apply_links:match_link_and_residue_atoms",
    params=dict(meta_molecule=METAMOL, link=LINK, link_to_resid=TDict(TNode, TNode)), result=TDict(TNode, TNode),
    requires={"link nodes are assigned to residues that stand for at least one atom": "wf_inputs(meta_molecule, link, link_to_resid)"},
    raises=[("MatchError", "some_ambiguous(meta_molecule, link, link_to_resid)")],
    ensures={"every link atom is mapped to the one atom of its residue that matches it": "assigned(meta_molecule, link, link_to_resid, result)"},
    locals={"link_to_mol": TDict(TNode, TNode)},
    loops={0: Loop({"assigned so far": "assigned(meta_molecule, link, link_to_resid, link_to_mol, k, _pos0)"})},
    spec_fns=dict(assigned=assigned, some_ambiguous=some_ambiguous, wf_inputs=wf_inputs),
    props=("C02",), note="vermouth attributes_match uninterpreted; list(block.nodes)[0] needs a non-empty residue (precondition)"))

CONTRACTS = [FIND_ATOMS, MATCH_LINK]


# ---- veto before effect (static, over the real AST) ------------------------------------------------------------------------
def lemma_veto_before_effect(ctx):
    """C02 / C01: a link that does not apply must change nothing ('only atoms and interactions explicitly targeted by an APPLICABLE
    link may differ').  ApplyLinks.apply_link_between_residues rejects a link by raising MatchError; the obligation, read off the
    real source on every run: in the top-level statement sequence of the function every statement that can raise MatchError (a
    `raise MatchError`, or a call of a function that raises it) comes before the first statement that changes the molecule or the
    processor (attribute / subscript stores, mutator calls, add_edge, update, calls of the processor's own methods)."""
    import ast
    from pyvc import source
    from pyvc.types import Unsupported
    mod = source.load("polyply.src.apply_links")
    fn = mod.functions.get("ApplyLinks.apply_link_between_residues")
    if fn is None:
        raise Unsupported("ApplyLinks.apply_link_between_residues not found (stale contract)")
    raisers = {"match_link_and_residue_atoms"}
    mutators = {"append", "extend", "remove", "pop", "update", "insert", "add", "clear", "sort", "reverse", "setdefault",
                "add_edge", "add_node", "remove_node", "remove_nodes_from", "add_interaction", "remove_interaction"}

    def can_veto(st):
        for n in ast.walk(st):
            if isinstance(n, ast.Raise) and n.exc is not None:
                e = n.exc.func if isinstance(n.exc, ast.Call) else n.exc
                if isinstance(e, ast.Name) and e.id == "MatchError":
                    return True
            if isinstance(n, ast.Call) and isinstance(n.func, ast.Name) and n.func.id in raisers:
                return True
        return False

    def has_effect(st):
        for n in ast.walk(st):
            if isinstance(n, (ast.Assign, ast.AugAssign, ast.Delete)):
                tg = n.targets if isinstance(n, (ast.Assign, ast.Delete)) else [n.target]
                if any(isinstance(t, (ast.Subscript, ast.Attribute)) for t in tg):
                    return True
            if isinstance(n, ast.Call) and isinstance(n.func, ast.Attribute):
                if n.func.attr in mutators:
                    return True
                if isinstance(n.func.value, ast.Name) and n.func.value.id == "self":
                    return True          # a method of the processor (e.g. _update_interactions_dict) records the link
        return False
    body = [st for st in fn.body if not (isinstance(st, ast.Expr) and isinstance(st.value, ast.Constant))]
    vetoes = [i for i, st in enumerate(body) if can_veto(st)]
    effects = [i for i, st in enumerate(body) if has_effect(st)]
    mixed = [i for i in vetoes if i in effects]
    return [("the function has statements that can reject the link and statements that apply it", [], z3.BoolVal(bool(vetoes) and bool(effects))),
            ("no statement both rejects and applies", [], z3.BoolVal(not mixed)),
            ("every statement that can raise MatchError precedes the first statement that changes the molecule or the processor"
             + (f"  [last veto: line {body[max(vetoes)].lineno}, first effect: line {body[min(effects)].lineno}]" if vetoes and effects and max(vetoes) > min(effects) else ""),
             [], z3.BoolVal(bool(vetoes) and bool(effects) and max(vetoes) < min(effects)))]


# ---- _assign_link_resids: which residue every link atom is looked up in -----------------------------------------------------
LRES = TRec("nodeattrs", graph=TGraph(TRec("nodeattrs", order=TObj)))
RESLINK = TGraph(LRES)
MATCH = TDict(TNode, TNode)          # residue of the molecule -> residue-level node of the link
r_ = z3.Const("r_", NS)


def lgraph(res_link, ln, a):
    nd = res_link.fields["nodes"]
    g = nd.v.unflat([c[ln] for c in nd.comps]).fields["graph"]
    return z3.Select(g.fields["nodes"].dom, a)


def assigned_resids(result, res_link, match, pos=None, k=None, cur=None, apos=None, ka=None):
    """every link atom is assigned a residue whose matched link residue holds it, and every atom of a matched link residue is assigned"""
    seen = (lambda r: z3.BoolVal(True)) if pos is None else (lambda r: pos(r) < k)
    mr = lambda r: match.comps[0][r]      # noqa: E731
    val = result.comps[0][x_]
    sound = z3.ForAll([x_], z3.Implies(z3.Select(result.dom, x_),
                                       z3.And(z3.Select(match.dom, val), lgraph(res_link, mr(val), x_),
                                              seen(val) if cur is None else z3.Or(seen(val), val == cur))))
    covered = z3.And(z3.Select(match.dom, r_), seen(r_), lgraph(res_link, mr(r_), x_))
    if cur is not None:
        covered = z3.Or(covered, z3.And(r_ == cur, lgraph(res_link, mr(cur), x_), apos(x_) < ka))
    complete = z3.ForAll([r_, x_], z3.Implies(covered, z3.Select(result.dom, x_)))
    return z3.And(sound, complete)


ASSIGN_RESIDS = REG.add(Contract(
    "polyply.src.apply_links:_assign_link_resids",
    params=dict(res_link=RESLINK, match=MATCH), result=TDict(TNode, TNode),
    requires={"matched link residues are residues of the link": "match_wf(res_link, match)"},
    ensures={"every link atom is assigned a residue whose matched link residue contains it; the atoms of all matched link residues are assigned":
             "assigned_resids(result, res_link, match)"},
    locals={"link_node_to_resid": TDict(TNode, TNode)},
    loops={0: Loop({"assigned so far": "assigned_resids(link_node_to_resid, res_link, match, _pos0, k)"}),
           1: Loop({"assigned so far": "assigned_resids(link_node_to_resid, res_link, match, _pos0, k, resid, _pos1, ka)"}, index="ka")},
    spec_fns=dict(assigned_resids=assigned_resids,
                  match_wf=lambda rl, m: z3.ForAll([r_], z3.Implies(z3.Select(m.dom, r_), z3.Select(rl.fields["nodes"].dom, m.comps[0][r_])))),
    props=("C02",)))
CONTRACTS = [FIND_ATOMS, MATCH_LINK, ASSIGN_RESIDS]


# ---- _check_relative_order: a link's residues satisfy the order specifications -----------------------------------------------------
from pyvc.types import TBool, TODict        # noqa: E402
REG_ORD = Registry()
MO = z3.Function("vermouth_match_order", NS, z3.IntSort(), NS, z3.IntSort(), z3.BoolSort())     # vermouth.processors.do_links.match_order (dependency, uninterpreted)
o_ = z3.Const("o_", NS)
o2_ = z3.Const("o2_", NS)
c_ = z3.Int("c_")

REG_ORD.add(Contract("vermouth.processors.do_links:match_order", params=dict(order1=TNode, resid1=TInt, order2=TNode, resid2=TInt), result=TBool,
                     ensures={"a function of its arguments": "result == MO(order1, resid1, order2, resid2)"}, spec_fns=dict(MO=MO), trusted=True,
                     note="vermouth's order comparison (pure; raises ValueError for malformed order strings, which a parsed link does not carry)"))


def mo_symmetric():
    r1, r2 = z3.Int("r1_"), z3.Int("r2_")
    return z3.ForAll([o_, r1, o2_, r2], MO(o_, r1, o2_, r2) == MO(o2_, r2, o_, r1))


def nn(resids, orders):
    return z3.If(orders.n <= resids.n, orders.n, resids.n)


FO = z3.Function("first_occurrence", NS, z3.IntSort())      # ghost: index of the first occurrence of an order specification in `orders`


def fo_def(resids, orders):
    """definition of first_occurrence for the specifications that occur among the first n entries: it is an occurrence, and no
    occurrence comes before it (every finite list has one: a definitional axiom, listed as an assumption)"""
    n = nn(resids, orders)
    return z3.ForAll([i_], z3.Implies(z3.And(0 <= i_, i_ < n), z3.And(0 <= FO(slist_get(orders, i_)), FO(slist_get(orders, i_)) <= i_,
                                                                       slist_get(orders, FO(slist_get(orders, i_))) == slist_get(orders, i_))))


def first(orders, i):
    return FO(slist_get(orders, i)) == i


def consistent(resids, orders, upto=None):
    n = nn(resids, orders) if upto is None else upto
    return z3.ForAll([i_, j_], z3.Implies(z3.And(0 <= i_, i_ < n, 0 <= j_, j_ < n, slist_get(orders, i_) == slist_get(orders, j_)),
                                          slist_get(resids, i_) == slist_get(resids, j_)))


def pairs_ok(resids, orders):
    """every two different order specifications (each with the residue of its first occurrence, earlier one first) satisfy match_order"""
    n = nn(resids, orders)
    return z3.ForAll([i_, j_], z3.Implies(z3.And(0 <= i_, i_ < j_, j_ < n, first(orders, i_), first(orders, j_)),
                                          MO(slist_get(orders, i_), slist_get(resids, i_), slist_get(orders, j_), slist_get(resids, j_))))


def table_ok(om, F, resids, orders, k):
    """the table after k entries: one entry per order specification seen, holding the residue of its first occurrence, inserted in the
    order of first occurrence (ghost F: the index of the first occurrence, equal to the specification function first_occurrence)"""
    val = om.comps[0]
    f1, f2 = F.comps[0][o_], F.comps[0][o2_]
    return z3.And(
        z3.ForAll([o_], z3.Implies(z3.Select(om.dom, o_), z3.And(f1 == FO(o_), 0 <= f1, f1 < k, slist_get(orders, f1) == o_, val[o_] == slist_get(resids, f1)))),
        z3.ForAll([i_], z3.Implies(z3.And(0 <= i_, i_ < k), z3.And(z3.Select(om.dom, slist_get(orders, i_)), val[slist_get(orders, i_)] == slist_get(resids, i_)))),
        z3.ForAll([o_, o2_], z3.Implies(z3.And(z3.Select(om.dom, o_), z3.Select(om.dom, o2_)), (om.pos[o_] < om.pos[o2_]) == (f1 < f2))))


def combos_ok(om, C, j):
    e = slist_get(C, c_)
    return z3.ForAll([c_], z3.Implies(z3.And(0 <= c_, c_ < j), MO(e[0][0], e[0][1], e[1][0], e[1][1])))


def hook_first(eng, env):
    F = env["_F"]
    env["_F"] = SDict(F.k, F.v, F.dom, [z3.Store(F.comps[0], env["order"], env["k"])])


CHECK_ORDER = REG_ORD.add(Contract(
    "polyply.src.apply_links:_check_relative_order", params=dict(resids=TList(TInt), orders=TList(TNode)), result=TBool,
    ensures={"True only when equal order specifications name one residue": "implies(result, consistent(resids, orders))",
             "True only when every two different specifications (first occurrences, earlier first) satisfy vermouth's match_order": "implies(result, pairs_ok(resids, orders))",
             "False only when one of the two fails": "implies(not result, not (consistent(resids, orders) and pairs_ok(resids, orders)))"},
    axioms={"definition of the ghost function first_occurrence (every specification that occurs has a first occurrence)": "fo_def(resids, orders)",
            "vermouth's match_order gives the same verdict when the two residues are exchanged (its comparison matrix is built that way; checked exhaustively "
            "for 14 order specifications x resids 1..5 against the installed vermouth when this contract was written)": "mo_symmetric()"},
    locals={"order_match": TODict(TNode, TInt)}, ghost_locals={"_F": TDict(TNode, TInt)},
    ghost={"after:order_match[order] = resid": hook_first},
    loops={0: Loop({"table": "table_ok(order_match, _F, resids, orders, k)", "consistent so far": "consistent(resids, orders, k)"}, modifies=["_F"]),
           1: Loop({"table": "table_ok(order_match, _F, resids, orders, nn(resids, orders))", "consistent": "consistent(resids, orders)",
                    "pairs so far": "combos_ok(order_match, _seq1, k)"})},
    spec_fns=dict(consistent=consistent, pairs_ok=pairs_ok, table_ok=table_ok, combos_ok=combos_ok, nn=nn, fo_def=fo_def, mo_symmetric=mo_symmetric, implies=lambda a, b: z3.Implies(a, b) if not isinstance(a, bool) else (b if a else True)),
    props=("C02",), note="order specifications are opaque values (only compared, hashed and handed to match_order); the table is an insertion-ordered dict"))


def witness_check_order(rnd):
    """conformance test inputs: order specifications as vermouth writes them, and the meaning of the two uninterpreted symbols"""
    from vermouth.processors.do_links import match_order
    pool = [0, 1, -1, 2, ">", ">>", "<", "*", "**"]
    n = rnd.randint(0, 5)
    orders = [rnd.choice(pool) for _ in range(n)]
    base = {}
    resids = []
    for o in orders:
        if o not in base or rnd.random() < 0.15:
            base.setdefault(o, rnd.randint(1, 6))
            resids.append(base[o] if rnd.random() < 0.85 else rnd.randint(1, 6))
        else:
            resids.append(base[o])
    if rnd.random() < 0.2:
        resids.append(3)
    return ({"resids": resids, "orders": orders},
            {"vermouth_match_order": lambda a, r1, b, r2: match_order(a, int(r1), b, int(r2)),
             "first_occurrence": lambda o: orders.index(o) if o in orders else -1, "__names__": pool})


CHECK_ORDER.witness = witness_check_order

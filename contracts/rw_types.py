"""Shared type descriptors for the random-walk / restraint contracts."""
from pyvc.types import (TInt, TReal, TBool, TStr, TNode, TObj, TTuple, TVec, TList, TDict, TRec, TOpt)

V3 = TVec(3)
MK = TTuple(TInt, TNode)
ENGINE = TRec("polyply.src.nonbond_engine:NonBondEngine", posd=TDict(MK, V3), boxsize=V3)
RESTRAINT = TRec("restraint_list", in_out=TStr, centre=V3, a=TReal, b=TReal, c=TReal, kind=TStr)
# attribute dict of a residue node (only the keys the verified functions read); build MUST stay the first field
NODEATTR = TRec("nodeattrs", build=TBool, position=TOpt(V3), restraints=TOpt(TList(RESTRAINT)),
                rw_options=TOpt(TList(TTuple(V3, TReal))), distance_restraints=TOpt(TList(TTuple(TNode, TReal, TReal))))
TREE = TRec("searchtree", edges=TList(TTuple(TNode, TNode)))
METAMOL = TRec("polyply.src.meta_molecule:MetaMolecule", nodes=TDict(TNode, NODEATTR), search_tree=TREE, root=TOpt(TNode))
WALK = TRec("polyply.src.random_walk:RandomWalk", mol_idx=TInt, nonbond_matrix=ENGINE, start=V3, maxiter=TInt, maxdim=V3,
            vector_sphere=TList(V3), success=TBool, max_force=TReal, step_fudge=TReal, start_node=TOpt(TNode), nrewind=TInt,
            placed_nodes=TList(TTuple(TInt, TNode)), prev_prob=TReal, molecule=METAMOL)

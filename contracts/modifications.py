"""C01 (clause 'a modification changes nothing but the atoms it names in its target residue'): the target residue of a terminal
modification is found by its residue id -- polyply/src/apply_modifications.py:_node_from_resid (the repair of finding F13)."""
import z3
from pyvc.types import TInt, TStr, TNode, TRec, TGraph
from pyvc.contract import Contract, Registry, Loop

REG = Registry()
RES = TRec("nodeattrs", resid=TInt, resname=TStr)
METAMOL = TGraph(RES)
x_ = z3.Const("x_", TNode.sort)


def resid_of(mm, x):
    nd = mm.fields["nodes"]
    return nd.v.unflat([c[x] for c in nd.comps]).fields["resid"]


def is_node(mm, x):
    return z3.Select(mm.fields["nodes"].dom, x)


def none_has(mm, resid, pos=None, k=None):
    seen = z3.BoolVal(True) if pos is None else pos(x_) < k
    return z3.ForAll([x_], z3.Implies(z3.And(is_node(mm, x_), seen), resid_of(mm, x_) != resid))


NODE_FROM_RESID = REG.add(Contract(
    "polyply.src.apply_modifications:_node_from_resid",
    params=dict(meta_molecule=METAMOL, resid=TInt), result=TNode,
    raises=[("KeyError", "none_has(meta_molecule, resid)")],
    ensures={"the returned node is a residue of the molecule with exactly that residue id": "result in meta_molecule.nodes and meta_molecule.nodes[result]['resid'] == resid"},
    loops={0: Loop({"no residue visited so far has the id": "none_has(meta_molecule, resid, _pos0, k)"})},
    spec_fns=dict(none_has=none_has),
    inline_callees=("polyply.src.apply_modifications:_resids",),
    props=("C01",)))

CONTRACTS = [NODE_FROM_RESID]

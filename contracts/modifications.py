"""C01 (clause 'a modification changes nothing but the atoms it names in its target residue'): the target residue of a terminal
modification is found by its residue id -- polyply/src/apply_modifications.py:_node_from_resid (the repair of finding F13)."""
import z3
from pyvc.types import TInt, TStr, TNode, TRec, TGraph
from pyvc.contract import Contract, Registry, Loop

REG = Registry()
RES = TRec("nodeattrs", resid=TInt, resname=TStr)
METAMOL = TGraph(RES)
x_ = z3.Const("x_", TNode.sort)


def resid_of(mm, x):
    nd = mm.fields["nodes"]
    return nd.v.unflat([c[x] for c in nd.comps]).fields["resid"]


def is_node(mm, x):
    return z3.Select(mm.fields["nodes"].dom, x)


def none_has(mm, resid, pos=None, k=None):
    seen = z3.BoolVal(True) if pos is None else pos(x_) < k
    return z3.ForAll([x_], z3.Implies(z3.And(is_node(mm, x_), seen), resid_of(mm, x_) != resid))


NODE_FROM_RESID = REG.add(Contract(
    "polyply.src.apply_modifications:_node_from_resid",
    params=dict(meta_molecule=METAMOL, resid=TInt), result=TNode,
    raises=[("KeyError", "none_has(meta_molecule, resid)")],
    ensures={"the returned node is a residue of the molecule with exactly that residue id": "result in meta_molecule.nodes and meta_molecule.nodes[result]['resid'] == resid"},
    loops={0: Loop({"no residue visited so far has the id": "none_has(meta_molecule, resid, _pos0, k)"})},
    spec_fns=dict(none_has=none_has),
    inline_callees=("polyply.src.apply_modifications:_resids",),
    props=("C01",)))

CONTRACTS = [NODE_FROM_RESID]


# ---- static frame obligation for apply_mod -----------------------------------------------------------------------------------------
def lemma_mod_frame(ctx):
    """C01, last sentence ('a modification changes nothing but the atoms it names in its target residue'), as far as the structure of
    apply_mod decides it -- obligations over the real AST, in the style of the ownership obligations of C13:
      F1  the only statements of apply_mod that store into an object reachable from its arguments are of the form
          molecule.nodes[n][key] = value;
      F2  each of them lies in a loop `for n in target_residue['graph'].nodes` (n ranges over the atoms of the target residue) ...
      F3  ... under a guard `aname in mod_atoms.keys()` where aname was read from molecule.nodes[n]['atomname'] in that iteration
          (n carries a name the modification lists) ...
      F4  ... inside a loop over `mod_atoms[aname].items()` that supplies key and value (only what the modification's `replace` says);
      F5  target_residue is the residue found by the residue id of the target (through _node_from_resid, proved above), and mod_atoms
          is filled from the atoms of the desired modification only;
      F7  the table of named atoms is created afresh for every (target, modification) pair;
      F6  the only other calls that can change the molecule are molecule.add_interaction (vermouth: appends an interaction, no atom
          changes; assumed effect contract) -- no deletion, update, pop, setdefault, clear or node/edge removal anywhere in the function."""
    import ast
    from pyvc import source
    from pyvc.types import Unsupported
    mod = source.load("polyply.src.apply_modifications")
    fn = mod.functions.get("apply_mod")
    if fn is None:
        raise Unsupported("apply_mod not found (stale contract)")
    parents = {}
    for p in ast.walk(fn):
        for ch in ast.iter_child_nodes(p):
            parents[id(ch)] = p

    def ancestors(n):
        while id(n) in parents:
            n = parents[id(n)]
            yield n
    params = {a.arg for a in fn.args.args}
    # local names bound (directly) to objects reachable from the arguments
    reach = set(params)
    for _ in range(4):
        for n in ast.walk(fn):
            if isinstance(n, ast.Assign) and len(n.targets) == 1 and isinstance(n.targets[0], ast.Name):
                roots = {x.id for x in ast.walk(n.value) if isinstance(x, ast.Name)}
                if roots & reach and not isinstance(n.value, (ast.Dict, ast.Constant, ast.BinOp)):
                    reach.add(n.targets[0].id)

    def root(e):
        while isinstance(e, (ast.Subscript, ast.Attribute)):
            e = e.value
        return e.id if isinstance(e, ast.Name) else None
    local_dicts = {n.targets[0].id for n in ast.walk(fn) if isinstance(n, ast.Assign) and len(n.targets) == 1 and isinstance(n.targets[0], ast.Name)
                   and isinstance(n.value, ast.Dict) and not n.value.keys}       # dictionaries made inside the function (x = {}): not the arguments' state
    reach -= local_dicts
    stores = [n for n in ast.walk(fn) if isinstance(n, (ast.Assign, ast.AugAssign))
              for t in (n.targets if isinstance(n, ast.Assign) else [n.target]) if isinstance(t, (ast.Subscript, ast.Attribute)) and root(t) in reach]
    good = []
    tres_names, tables = set(), set()
    for st in stores:
        t = st.targets[0] if isinstance(st, ast.Assign) else st.target
        shape = (isinstance(st, ast.Assign) and isinstance(t, ast.Subscript) and isinstance(t.slice, ast.Name) and isinstance(t.value, ast.Subscript)
                 and isinstance(t.value.slice, ast.Name) and ast.unparse(t.value.value) == "molecule.nodes" and isinstance(st.value, ast.Name))
        if not shape:
            good.append((st, False, False, False, False))
            continue
        n_name, key_name, val_name = t.value.slice.id, t.slice.id, st.value.id
        anc = list(ancestors(st))
        loops = [a for a in anc if isinstance(a, ast.For)]
        node_loop = next((a for a in loops if isinstance(a.target, ast.Name) and a.target.id == n_name), None)
        it = ast.unparse(node_loop.iter) if node_loop is not None else ""
        tres = it.split("[")[0] if it.endswith("['graph'].nodes") or it.endswith("['graph']") else None
        f2 = tres is not None and tres.isidentifier()
        tres_names.add(tres)
        guards = [a for a in anc if isinstance(a, ast.If) and isinstance(a.test, ast.Compare) and len(a.test.ops) == 1 and isinstance(a.test.ops[0], ast.In)
                  and isinstance(a.test.left, ast.Name) and ast.unparse(a.test.comparators[0]).replace(".keys()", "") in local_dicts and st in ast.walk(ast.Module(body=a.body, type_ignores=[]))]
        table = ast.unparse(guards[0].test.comparators[0]).replace(".keys()", "") if guards else None
        tables.add(table)
        f3 = False
        aname = guards[0].test.left.id if guards else None
        if guards and node_loop is not None:
            binds = [s for s in node_loop.body if isinstance(s, ast.Assign) and len(s.targets) == 1 and isinstance(s.targets[0], ast.Name) and s.targets[0].id == aname]
            f3 = len(binds) == 1 and ast.unparse(binds[0].value) == f"molecule.nodes[{n_name}]['atomname']" and binds[0].lineno < guards[0].lineno
        f4 = any(isinstance(a.target, ast.Tuple) and [e.id for e in a.target.elts if isinstance(e, ast.Name)] == [key_name, val_name]
                 and ast.unparse(a.iter) == f"{table}[{aname}].items()" for a in loops)
        good.append((st, True, f2, f3, f4))
    # F5
    import re
    tres = next(iter(tres_names)) if len(tres_names) == 1 else None
    table = next(iter(tables)) if len(tables) == 1 else None
    tr = [n for n in ast.walk(fn) if isinstance(n, ast.Assign) and len(n.targets) == 1 and isinstance(n.targets[0], ast.Name) and n.targets[0].id == tres]
    m5 = re.fullmatch(r"meta_molecule\.nodes\[_node_from_resid\(meta_molecule, (\w+)\)\]", ast.unparse(tr[0].value)) if len(tr) == 1 else None
    f5a = m5 is not None
    rid = [n for n in ast.walk(fn) if m5 and isinstance(n, ast.Assign) and len(n.targets) == 1 and isinstance(n.targets[0], ast.Name) and n.targets[0].id == m5.group(1)]
    loop_targets = {e.id for n in fn.body if isinstance(n, ast.For) and isinstance(n.target, ast.Tuple) for e in n.target.elts[:1] if isinstance(e, ast.Name)}
    f5b = len(rid) == 1 and re.fullmatch(r"(\w+)\['resid'\]", ast.unparse(rid[0].value)) is not None and ast.unparse(rid[0].value).split("[")[0] in loop_targets
    fills = [n for n in ast.walk(fn) if isinstance(n, ast.Assign) and isinstance(n.targets[0], ast.Subscript) and root(n.targets[0]) == table]
    mod_names = {e.id for n in fn.body if isinstance(n, ast.For) and isinstance(n.target, ast.Tuple) for e in n.target.elts[1:2] if isinstance(e, ast.Name)}

    def fill_ok(n):
        key = re.fullmatch(r"(\w+)\['atomname'\]", ast.unparse(n.targets[0].slice))
        return key is not None and any(isinstance(a, ast.For) and ast.unparse(a.target) == key.group(1)
                                       and any(ast.unparse(a.iter) == f"molecule.force_field.modifications[{mn}].atoms" for mn in mod_names) for a in ancestors(n))
    f5c = bool(fills) and all(fill_ok(n) for n in fills)
    # F7: the table of named atoms is made afresh for every (target, modification) pair
    outer = [n for n in fn.body if isinstance(n, ast.For) and isinstance(n.target, ast.Tuple)]
    creations = [n for n in ast.walk(fn) if isinstance(n, ast.Assign) and len(n.targets) == 1 and isinstance(n.targets[0], ast.Name) and n.targets[0].id == table
                 and isinstance(n.value, ast.Dict) and not n.value.keys]
    f7 = len(outer) == 1 and len(creations) == 1 and any(st is creations[0] for st in outer[0].body) and all(
        creations[0].lineno < n.lineno for n in fills)
    # F6
    bad_methods = {"update", "pop", "popitem", "setdefault", "clear", "remove_node", "remove_nodes_from", "remove_edge", "remove_edges_from", "add_node", "add_nodes_from",
                   "add_edge", "add_edges_from", "merge_molecule", "remove_interaction", "__setitem__", "__delitem__"}
    calls = [n for n in ast.walk(fn) if isinstance(n, ast.Call) and isinstance(n.func, ast.Attribute) and root(n.func) in reach]
    mutators = [c for c in calls if c.func.attr in bad_methods]
    dels = [n for n in ast.walk(fn) if isinstance(n, ast.Delete)]
    others = sorted({c.func.attr for c in calls} - {"items", "keys", "values", "get", "add_interaction", "split", "warning", "info", "nodes"})
    out = [("apply_mod F1: every store into an object reachable from the arguments has the form molecule.nodes[n][key] = value"
            + (f"  [line {next(g[0].lineno for g in good if not g[1])}]" if any(not g[1] for g in good) else ""), [], z3.BoolVal(bool(good) and all(g[1] for g in good))),
           ("apply_mod F2: n ranges over the atoms of the target residue (for n in target_residue['graph'].nodes)", [], z3.BoolVal(bool(good) and all(g[2] for g in good))),
           ("apply_mod F3: the store is guarded by `aname in mod_atoms` with aname = molecule.nodes[n]['atomname'] read in the same iteration", [], z3.BoolVal(bool(good) and all(g[3] for g in good))),
           ("apply_mod F4: key and value come from mod_atoms[aname].items() (what the modification's replace entry says)", [], z3.BoolVal(bool(good) and all(g[4] for g in good))),
           ("apply_mod F5: target_residue is the residue with the target's residue id; mod_atoms is filled from the atoms of the desired modification only", [], z3.BoolVal(f5a and f5b and f5c)),
           ("apply_mod F7: the table of named atoms is created afresh in every iteration over the (target, modification) pairs, before it is filled (nothing carries over from an earlier modification)", [], z3.BoolVal(f7)),
           ("apply_mod F6: no deletion and no mutating call other than molecule.add_interaction on objects reachable from the arguments"
            + (f"  [{[c.func.attr for c in mutators] + others}]" if mutators or others else ""), [], z3.BoolVal(not mutators and not dels and not others))]
    return out


# ---- _patch_protein_termini: which residues the default terminal modifications address ----------------------------------------------
from pyvc.types import TList as _TL, TTuple as _TT      # noqa: E402
RES2 = TRec("nodeattrs", resid=TInt, resname=TNode)
METAMOL2 = TGraph(RES2)
SPEC2 = TRec("resspec", resid=TInt, resname=TNode)
REG_T = Registry()
REG_T.add(Contract(NODE_FROM_RESID.target, params=dict(meta_molecule=METAMOL2, resid=TInt), result=TNode,
                   raises=[("KeyError", "none_has(meta_molecule, resid)")],
                   ensures={"the returned node is a residue of the molecule with exactly that residue id": "result in meta_molecule.nodes and meta_molecule.nodes[result]['resid'] == resid"},
                   spec_fns=dict(none_has=none_has), trusted=True,
                   note="the proved contract of _node_from_resid (unit modification-target-by-resid), re-stated for residue names as opaque atoms"))


def lowest(mm, r):
    return z3.And(z3.Exists([x_], z3.And(is_node(mm, x_), resid_of(mm, x_) == r)), z3.ForAll([x_], z3.Implies(is_node(mm, x_), r <= resid_of(mm, x_))))


def highest(mm, r):
    return z3.And(z3.Exists([x_], z3.And(is_node(mm, x_), resid_of(mm, x_) == r)), z3.ForAll([x_], z3.Implies(is_node(mm, x_), resid_of(mm, x_) <= r)))


def names(mm, spec):
    """the specification carries the name of a residue that has its residue id"""
    nd = mm.fields["nodes"]
    a = nd.v.unflat([c[x_] for c in nd.comps])
    sp = spec.fields if hasattr(spec, "fields") else spec
    return z3.Exists([x_], z3.And(is_node(mm, x_), a.fields["resid"] == sp["resid"], a.fields["resname"] == sp["resname"]))


TERMINI = REG_T.add(Contract(
    "polyply.src.apply_modifications:_patch_protein_termini", params=dict(meta_molecule=METAMOL2, ter_mods=_TL(TNode)), result=_TL(_TT(SPEC2, TNode)),
    requires={"at least one terminal modification is named": "len(ter_mods) >= 1", "the molecule has residues": "nonempty(meta_molecule)"},
    ensures={"two targets": "len(result) == 2",
             "the first target is a residue with the lowest residue id, addressed by that id and its name, with the first modification":
             "lowest(meta_molecule, result[0][0]['resid']) and names(meta_molecule, result[0][0]) and result[0][1] == ter_mods[0]",
             "the second target is a residue with the highest residue id, with the second modification (the first one when only one is named)":
             "highest(meta_molecule, result[1][0]['resid']) and names(meta_molecule, result[1][0]) and result[1][1] == (ter_mods[1] if len(ter_mods) > 1 else ter_mods[0])"},
    spec_fns=dict(lowest=lowest, highest=highest, names=names, nonempty=lambda mm: z3.Exists([x_], is_node(mm, x_))),
    inline_callees=("polyply.src.apply_modifications:_resids",), props=("C01",),
    note="_node_from_resid through its proved contract; min / max over the residue ids modelled (a value that is attained and bounds the others)"))

"""C19: the Watson-Crick pairing table of polyply/src/gen_dna.py, read from the real source on every run.
The table is a finite literal, so its laws are decided completely, key by key (each law instance is one obligation
handed to the solver over the string theory: the table is encoded as an if-then-else term)."""
import z3
from pyvc import source
from pyvc.engine import Engine, Frame


def read_table():
    mod = source.load("polyply.src.gen_dna")
    eng = Engine({})
    eng._begin_path([])
    table = eng.eval_module_const(mod, "BASE_LIBRARY")
    if not isinstance(table, dict) or not all(isinstance(k, str) and isinstance(v, str) for k, v in table.items()):
        raise RuntimeError("BASE_LIBRARY is no longer a literal str->str table")
    return table, mod.segment(mod.assigns["BASE_LIBRARY"])


def lemma_base_library(ctx):
    table, _src = read_table()
    S = z3.StringVal
    x = z3.String("x")

    def comp(t):
        out = S("?")
        for k, v in table.items():
            out = z3.If(t == S(k), S(v), out)
        return out
    keys = list(table)
    is_key = z3.Or(*[x == S(k) for k in keys])
    base = {"A": "T", "T": "A", "G": "C", "C": "G"}
    obls = []
    # the statement: residue n+k is the complement of residue n+1-k with 5' and 3' terminal roles exchanged
    for b, cb in base.items():
        for suf, csuf in (("", ""), ("5", "3"), ("3", "5")):
            obls.append((f"comp(D{b}{suf}) = D{cb}{csuf}", [], comp(S("D" + b + suf)) == S("D" + cb + csuf)))
    obls.append(("the table has exactly the 12 DNA residue names as keys", [], z3.BoolVal(sorted(keys) == sorted("D" + b + s for b in base for s in ("", "5", "3")))))
    obls.append(("involution: complementing twice recovers the name", [is_key], comp(comp(x)) == x))
    obls.append(("closed: the complement of a DNA residue name is a DNA residue name", [is_key], z3.Or(*[comp(x) == S(k) for k in keys])))
    obls.append(("no fixed point", [is_key], comp(x) != x))
    return obls

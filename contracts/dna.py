"""C19: the Watson-Crick pairing table of polyply/src/gen_dna.py, read from the real source on every run.
The table is a finite literal, so its laws are decided completely, key by key (each law instance is one obligation
handed to the solver over the string theory: the table is encoded as an if-then-else term)."""
import z3
from pyvc import source
from pyvc.engine import Engine, Frame


def read_table():
    mod = source.load("polyply.src.gen_dna")
    eng = Engine({})
    eng._begin_path([])
    table = eng.eval_module_const(mod, "BASE_LIBRARY")
    if not isinstance(table, dict) or not all(isinstance(k, str) and isinstance(v, str) for k, v in table.items()):
        raise RuntimeError("BASE_LIBRARY is no longer a literal str->str table")
    return table, mod.segment(mod.assigns["BASE_LIBRARY"])


def lemma_base_library(ctx):
    table, _src = read_table()
    S = z3.StringVal
    x = z3.String("x")

    def comp(t):
        out = S("?")
        for k, v in table.items():
            out = z3.If(t == S(k), S(v), out)
        return out
    keys = list(table)
    is_key = z3.Or(*[x == S(k) for k in keys])
    base = {"A": "T", "T": "A", "G": "C", "C": "G"}
    obls = []
    # the statement: residue n+k is the complement of residue n+1-k with 5' and 3' terminal roles exchanged
    for b, cb in base.items():
        for suf, csuf in (("", ""), ("5", "3"), ("3", "5")):
            obls.append((f"comp(D{b}{suf}) = D{cb}{csuf}", [], comp(S("D" + b + suf)) == S("D" + cb + csuf)))
    obls.append(("the table has exactly the 12 DNA residue names as keys", [], z3.BoolVal(sorted(keys) == sorted("D" + b + s for b in base for s in ("", "5", "3")))))
    obls.append(("involution: complementing twice recovers the name", [is_key], comp(comp(x)) == x))
    obls.append(("closed: the complement of a DNA residue name is a DNA residue name", [is_key], z3.Or(*[comp(x) == S(k) for k in keys])))
    obls.append(("no fixed point", [is_key], comp(x) != x))
    return obls


# =====================================================================================================================================
# complement_dsDNA under contract.  Residue names are names that are only compared: values of the opaque Node sort, the strings of
# BASE_LIBRARY interned as constants of that sort (pyvc.ops.intern_name; different strings are different constants).
from pyvc.types import (TInt, TBool, TNode, TObj, TTuple, TList, TDict, TDefaultDict, TRec, TGraph, key_term, slist_get)   # noqa: E402
from pyvc.contract import Contract, Registry, Loop      # noqa: E402
from pyvc import ops        # noqa: E402

REG = Registry()
RATTR = TRec("nodeattrs", resname=TNode, resid=TInt, build=TBool, backmap=TBool)
EATTR = TDict(TNode, TObj)                                 # attribute dictionary of one edge (attribute name -> value)
EKEY = TTuple(TInt, TInt)
STRAND = TGraph(RATTR, key=TInt, cls="polyply.src.meta_molecule:MetaMolecule", ordered=True, max_resid=TInt, eattr=TDefaultDict(EKEY, EATTR))
i_, j_, t_ = z3.Int("i_"), z3.Int("j_"), z3.Int("t_")
a_ = z3.Const("a_", TNode.sort)


def comp(x):
    """the pairing table of the real source as a term over interned names (a name outside the table maps to itself: never used, the
    lookups raise there)"""
    table, _src = read_table()
    out = x
    for k, v in table.items():
        out = z3.If(x == ops.intern_name(k), ops.intern_name(v), out)
    return out


def known(x):
    table, _src = read_table()
    return z3.Or(*[x == ops.intern_name(k) for k in table])


def nattrs(g, i):
    nd = g.fields["nodes"]
    return nd.v.unflat([c[i] for c in nd.comps])


def adj(g, a, b):
    s = g.fields["adj"]
    return z3.Select(s.dom, key_term(s.k, (a, b)))


def eattr(g, lo, hi):
    """attribute dictionary of the edge {lo, hi}, lo <= hi (the key networkx' one dictionary per undirected edge is modelled under)"""
    ea = g.fields["eattr"]
    k = key_term(ea.k, (lo, hi))
    return ea.v.unflat([c[k] for c in ea.comps])


def same_dict(d1, d2):
    va, vb = d1.comps[0][a_], d2.comps[0][a_]
    return z3.ForAll([a_], z3.And(z3.Select(d1.dom, a_) == z3.Select(d2.dom, a_), z3.Implies(z3.Select(d1.dom, a_), va == vb)))


def strand_edges(g, n, circular, i, j):
    """the bonds of a strand of n nucleotides on the nodes 0..n-1 (a circular one is closed by the bond n-1 -- 0)"""
    return z3.And(0 <= i, i < n, 0 <= j, j < n, z3.Or(j == i + 1, i == j + 1, z3.And(circular, n >= 3, z3.Or(z3.And(i == 0, j == n - 1), z3.And(j == 0, i == n - 1)))))


def strand(g, n, circular):
    """a single strand as the sequence readers build it: nodes 0..n-1 inserted in that order, residue ids 1..n, consecutive bonds"""
    nd = g.fields["nodes"]
    at = nattrs(g, i_)
    return z3.And(n >= 1, z3.Implies(circular, n >= 3), g.fields["max_resid"] == n,
                  z3.ForAll([i_], z3.Select(nd.dom, i_) == z3.And(0 <= i_, i_ < n)),
                  nd.order.n == n, z3.ForAll([i_], z3.Implies(z3.And(0 <= i_, i_ < n), nd.order.comps[0][i_] == i_)),
                  z3.ForAll([i_], z3.Implies(z3.And(0 <= i_, i_ < n), at.fields["resid"] == i_ + 1)),
                  z3.ForAll([i_, j_], adj(g, i_, j_) == strand_edges(g, n, circular, i_, j_)))


def old_part_kept(g, g0, n):
    """the original strand is unchanged: its nodes, their attributes, the bonds among them and their labels; no bond joins the two strands"""
    ea, ea0 = g.fields["eattr"], g0.fields["eattr"]
    p = z3.Const("p_", ea.dom.sort().domain())
    hi = key_untuple_snd(ea.k, p)
    return z3.And(z3.ForAll([i_], z3.Implies(z3.And(0 <= i_, i_ < n), z3.And(z3.Select(g.fields["nodes"].dom, i_), RATTR.eq(nattrs(g, i_), nattrs(g0, i_))))),
                  z3.ForAll([i_, j_], z3.Implies(z3.And(0 <= i_, i_ < n), z3.And(adj(g, i_, j_) == adj(g0, i_, j_), adj(g, j_, i_) == adj(g0, j_, i_)))),
                  z3.ForAll([p], z3.Implies(hi < n, z3.And(*[c[p] == c0[p] for c, c0 in zip(ea.comps, ea0.comps)]))))


def key_untuple_snd(kt, p):
    from pyvc.types import key_untuple
    return key_untuple(kt, p)[1]


def complement_upto(g, g0, n, m, closed, lab_m=None, lab_closed=None):
    """the second strand so far: nodes n..n+m (m+1 of them), node i pairs with node 2n-1-i; bonds i -- i+1 carrying the labels of the bond
    2n-2-i -- 2n-1-i; `closed`: the bond that closes a circular complement is there, with the labels of the closing bond of the original"""
    nd = g.fields["nodes"]
    at = nattrs(g, i_)
    lab_m = m if lab_m is None else lab_m
    lab_closed = closed if lab_closed is None else lab_closed
    return z3.And(
        z3.ForAll([i_], z3.Select(nd.dom, i_) == z3.And(0 <= i_, i_ <= n + m)),
        nd.order.n == n + m + 1, z3.ForAll([i_], z3.Implies(z3.And(0 <= i_, i_ <= n + m), nd.order.comps[0][i_] == i_)),
        g.fields["max_resid"] == n + m + 1,
        z3.ForAll([i_], z3.Implies(z3.And(n <= i_, i_ <= n + m), z3.And(
            at.fields["resname"] == comp(nattrs(g0, 2 * n - 1 - i_).fields["resname"]), at.fields["resid"] == i_ + 1, at.fields["build"], at.fields["backmap"]))),
        z3.ForAll([i_, j_], z3.Implies(z3.And(n <= i_, n <= j_), adj(g, i_, j_) == z3.And(i_ <= n + m, j_ <= n + m, z3.Or(
            j_ == i_ + 1, i_ == j_ + 1, z3.And(closed, z3.Or(z3.And(i_ == n, j_ == 2 * n - 1), z3.And(j_ == n, i_ == 2 * n - 1))))))),
        z3.ForAll([i_], z3.Implies(z3.And(n <= i_, i_ < n + lab_m), same_dict(eattr(g, i_, i_ + 1), eattr(g0, 2 * n - 2 - i_, 2 * n - 1 - i_)))),
        z3.Implies(lab_closed, same_dict(eattr(g, n, 2 * n - 1), eattr(g0, 0, n - 1))))


def chain_edges(Y, n, circular):
    """the edges the traversal yields from the 3' end: (n-1, n-2), ..., (1, 0), and for a circular strand finally (0, n-1)"""
    e = slist_get(Y, i_)
    back = z3.Or(circular, n == 2)      # two nucleotides: the traversal takes the only bond for a closing bond and yields it again, reversed
    return z3.And(Y.n == z3.If(back, n, n - 1),
                  z3.ForAll([i_], z3.Implies(z3.And(0 <= i_, i_ < n - 1), z3.And(e[0] == n - 1 - i_, e[1] == n - 2 - i_))),
                  z3.Implies(back, z3.And(slist_get(Y, n - 1)[0] == 0, slist_get(Y, n - 1)[1] == n - 1)))


def strand_part(g, n, circular):
    """the nodes 0..n-1 of g form the strand (other nodes may exist; none of them is bonded to the strand)"""
    nd = g.fields["nodes"]
    at = nattrs(g, i_)
    return z3.And(n >= 1, z3.Implies(circular, n >= 3),
                  z3.ForAll([i_], z3.Implies(z3.And(0 <= i_, i_ < n), z3.And(z3.Select(nd.dom, i_), at.fields["resid"] == i_ + 1))),
                  z3.ForAll([i_, j_], z3.Implies(z3.And(0 <= i_, i_ < n), z3.And(adj(g, i_, j_) == strand_edges(g, n, circular, i_, j_),
                                                                                adj(g, j_, i_) == strand_edges(g, n, circular, j_, i_)))))


CIRC = z3.Bool("strand_is_circular")      # ghost parameter of the specification: whether the input strand is circular
N0 = z3.Int("strand_length")              # ghost: number of nucleotides of the input strand

EDGE_ITER = REG.add(Contract(
    "polyply.src.gen_dna:_dna_edge_iterator", params=dict(meta_molecule=STRAND, source=TInt), result=TList(TTuple(TInt, TInt)),
    requires={"the nodes below the source form a strand whose 3' end is the source": "strand_part(meta_molecule, source + 1, CIRC)"},
    ensures={"the bonds of the strand from the 3' end down, then the closing bond of a circular strand": "chain_edges(result, source + 1, CIRC)"},
    spec_fns=dict(strand_part=strand_part, chain_edges=chain_edges, CIRC=CIRC), trusted=True, props=("C19",),
    note="ASSUMED (generator consumed lazily while the caller adds nodes; depends on the neighbour order of networkx): the traversal of a strand "
         "built in sequence order; bounded unit c19-dsdna runs the real generator"))


def this_bond(prev, nxt, n, k):
    """the k-th bond of the traversal from the 3' end: n-1-k -- n-2-k, and the closing bond 0 -- n-1 last"""
    return z3.If(k < n - 1, z3.And(prev == n - 1 - k, nxt == n - 2 - k), z3.And(k == n - 1, prev == 0, nxt == n - 1))


def stage_m(k, n):
    return z3.If(k <= n - 1, k, n - 1)


def corr_ok(corr, n, m):
    """the correspondence table: node n-1-t of the original pairs with node n+t of the complement, for the t reached so far"""
    return z3.ForAll([i_], z3.And(z3.Select(corr.dom, i_) == z3.And(n - 1 - m <= i_, i_ <= n - 1),
                                  z3.Implies(z3.Select(corr.dom, i_), corr.comps[0][i_] == 2 * n - 1 - i_)))


def outer_inv(g, g0, n, k):
    return z3.And(old_part_kept(g, g0, n), complement_upto(g, g0, n, stage_m(k, n), k == n))


def inner_inv(g, g0, n, k):
    return z3.And(old_part_kept(g, g0, n), complement_upto(g, g0, n, stage_m(k + 1, n), k + 1 == n, stage_m(k, n), z3.BoolVal(False)))


def copied_so_far(g, g0, prev, nxt, a, b, pos, j):
    """the labels of the bond prev -- nxt visited so far are on the bond a -- b of the complement, which carries no other label (for a
    strand of two nucleotides the bond is visited twice: the second visit finds the labels in place)"""
    lo0, hi0 = z3.If(prev <= nxt, prev, nxt), z3.If(prev <= nxt, nxt, prev)
    lo, hi = z3.If(a <= b, a, b), z3.If(a <= b, b, a)
    e1, e2 = eattr(g0, lo0, hi0), eattr(g, lo, hi)
    return z3.ForAll([a_], z3.And(z3.Implies(z3.And(z3.Select(e1.dom, a_), pos(a_) < j), z3.Select(e2.dom, a_)),
                                  z3.Implies(z3.Select(e2.dom, a_), z3.And(z3.Select(e1.dom, a_), e2.comps[0][a_] == e1.comps[0][a_]))))


COMPLEMENT = REG.add(Contract(
    "polyply.src.gen_dna:complement_dsDNA", params=dict(meta_molecule=STRAND), result=STRAND,
    requires={"a single strand of n >= 1 nucleotides as the sequence readers build it (nodes 0..n-1 in order, residue ids 1..n, consecutive bonds, "
              "closed by the bond n-1 -- 0 when circular)": "strand(meta_molecule, N0, CIRC)"},
    raises_when={"KeyError": "not known(meta_molecule.nodes[last_node].resname)",
                 "OSError": "not known(meta_molecule.nodes[next_node].resname)"},
    modifies=["meta_molecule"],
    ensures={"the original strand is unchanged and no bond joins the two strands": "old_part_kept(meta_molecule, old(meta_molecule), N0)",
             "2n residues: residue n+k is the complement of residue n+1-k, numbered n+k, bonded in that order with the bond labels copied; "
             "a circular strand gives a circular complement": "complement_upto(meta_molecule, old(meta_molecule), N0, N0 - 1, CIRC)",
             "the molecule is returned": "same_graph(result, meta_molecule)"},
    locals={"correspondance": TDict(TInt, TInt)},
    loops={0: Loop({"strands so far": "outer_inv(meta_molecule, old(meta_molecule), N0, k)",
                    "correspondence": "corr_ok(correspondance, N0, stage_m(k, N0))",
                    "counters": "total == N0 + k and last_node == N0 - 1"}),
           1: Loop({"strands so far, current bond pending": "inner_inv(meta_molecule, old(meta_molecule), N0, k)",
                    "correspondence": "corr_ok(correspondance, N0, stage_m(k + 1, N0))",
                    "counters": "total == N0 + k and last_node == N0 - 1 and 0 <= k and k < len(_seq0)",
                    "this bond": "this_bond(prev_node, next_node, N0, k) and new_node == 2 * N0 - 1 - next_node",
                    "labels copied so far": "copied_so_far(meta_molecule, old(meta_molecule), prev_node, next_node, 2 * N0 - 1 - prev_node, new_node, _pos1, j)"},
                   index="j")},
    spec_fns=dict(strand=strand, old_part_kept=old_part_kept, complement_upto=complement_upto, outer_inv=outer_inv, inner_inv=inner_inv,
                  corr_ok=corr_ok, stage_m=stage_m, this_bond=this_bond, copied_so_far=copied_so_far, known=known, N0=N0, CIRC=CIRC,
                  same_graph=lambda a, b: STRAND.eq(a, b)),
    inline_callees=("polyply.src.meta_molecule:MetaMolecule.add_monomer", "polyply.src.meta_molecule:MetaMolecule.add_node"),
    deep_wf=True, props=("C19",),
    note="the edge traversal _dna_edge_iterator is used through its ASSUMED contract; add_monomer / add_node executed at the call site"))


def _strand_data(rnd):
    table, _src = read_table()
    n = rnd.randint(1, 5)
    circ = n >= 3 and rnd.random() < 0.4
    names = sorted(table)
    for s_ in names:
        ops.intern_name(s_)
    pick = lambda: rnd.choice(names) if rnd.random() < 0.95 else "XX"      # noqa: E731
    nodes = {i: {"resname": pick(), "resid": i + 1, "build": True, "backmap": True} for i in range(n)}
    pairs = [(i, i + 1) for i in range(n - 1)] + ([(0, n - 1)] if circ else [])
    eattr = {p: ({"linktype": rnd.choice(["a", "b"])} if rnd.random() < 0.5 else {}) for p in pairs}
    if circ:
        eattr[(0, n - 1)]["circle"] = True
    g = {"nodes": nodes, "adj": {(a, b) for a, b in pairs} | {(b, a) for a, b in pairs}, "max_resid": n, "eattr": eattr}
    return g, n, circ


def _real_strand(d):
    import networkx as nx
    from polyply.src.meta_molecule import MetaMolecule
    g = nx.Graph()
    for k, a in d["nodes"].items():
        g.add_node(k, resname=a["resname"], resid=a["resid"])
    for (a, b), attrs in d["eattr"].items():
        g.add_edge(a, b, **attrs)
    return MetaMolecule(g)


def _ghosts(n, circ):
    return {"strand_length": n, "strand_is_circular": circ, "__names__": ["XX", "linktype", "circle"], "__window__": 2 * n + 2}


def witness_complement(rnd):
    g, n, circ = _strand_data(rnd)
    return {"meta_molecule": g}, _ghosts(n, circ)


def witness_iterator(rnd):
    g, n, circ = _strand_data(rnd)
    if rnd.random() < 0.5:      # as at the call site: the first node of the second strand is there already
        g["nodes"][n] = {"resname": "DA", "resid": n + 1, "build": True, "backmap": True}
        g["max_resid"] = n + 1
    return {"meta_molecule": g, "source": n - 1}, _ghosts(n, circ)


COMPLEMENT.witness, COMPLEMENT.adapt = witness_complement, lambda a: {"meta_molecule": _real_strand(a["meta_molecule"])}
EDGE_ITER.witness, EDGE_ITER.adapt = witness_iterator, lambda a: {"meta_molecule": _real_strand(a["meta_molecule"]), "source": a["source"]}
CONTRACTS = [COMPLEMENT]

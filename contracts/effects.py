"""C20: static effect-ordering obligations over the real ASTs of gen_params, gen_coords and gen_seq.

Assumed effect contracts of the callees (dependency code, read from the installed vermouth source, see DESIGN 2.5):
  deferred_open(path, 'w')           registers a temp file in the process-wide DeferredFileWriter queue; `path` untouched
  vermouth.gmx.gro.write_gro(...)    writes through deferred_open: `path` untouched
  DeferredFileWriter().write()       FLUSH: backs up an existing file (#name.k#) and moves the temp file into place
  open(path, 'w') / json.dump        IMMEDIATE write to `path`
Obligation per program: in the function body (straight-line top level), every call that can create/modify the output path is
one of the designated FLUSH / IMMEDIATE sites, these sites come after every processing stage call, and nothing between the
first immediate effect and the end of the writing can run user-level processing stages again."""
import ast
from pyvc import source

PROGRAMS = {
    "gen_params": ("polyply.src.gen_itp", "gen_params",
                   ["load_ff_library", "MapToMolecule", "ApplyLinks", "ApplyModifications", "find_missing_edges", "write_molecule_itp"]),
    "gen_coords": ("polyply.src.gen_coords", "gen_coords",
                   ["from_gmx_topfile", "preprocess", "_check_molecules", "load_build_files", "find_starting_node_from_spec", "GenerateTemplates",
                    "AnnotateLigands", "BuildSystem", "split_ligands", "Backmap", "convert_to_vermouth_system", "write_gro"]),
    "gen_seq": ("polyply.src.gen_seq", "gen_seq",
                ["generate_seq_graph", "node_link_data"]),
}
IMMEDIATE = {"open", "dump", "write_text", "savetxt", "to_csv"}       # calls that touch a path at once when given a write mode
FLUSH = {"write"}                                                       # DeferredFileWriter().write()


def call_name(call):
    f = call.func
    if isinstance(f, ast.Name):
        return f.id
    if isinstance(f, ast.Attribute):
        return f.attr
    return None


def is_write_open(call):
    if call_name(call) != "open":
        return False
    args = list(call.args[1:2]) + [k.value for k in call.keywords if k.arg == "mode"]
    return any(isinstance(a, ast.Constant) and isinstance(a.value, str) and any(c in a.value for c in "wax+") for a in args)


def is_flush(call):
    f = call.func
    return (isinstance(f, ast.Attribute) and f.attr == "write" and isinstance(f.value, ast.Call)
            and call_name(f.value) == "DeferredFileWriter")


def analyse(prog):
    modname, fname, stages = PROGRAMS[prog]
    mod = source.load(modname)
    fn = mod.functions[fname]
    calls = sorted((n for n in ast.walk(fn) if isinstance(n, ast.Call)), key=lambda n: (n.lineno, n.col_offset))
    events = []
    for c in calls:
        nm = call_name(c)
        if is_flush(c):
            events.append(("flush", c.lineno, "DeferredFileWriter().write()"))
        elif is_write_open(c):
            events.append(("immediate", c.lineno, "open(.., 'w')"))
        elif nm == "dump":
            events.append(("immediate", c.lineno, "json.dump"))
        elif nm in stages:
            events.append(("stage", c.lineno, nm))
        elif nm in ("deferred_open",):
            events.append(("deferred", c.lineno, nm))
    return mod, fn, events, stages


def lemma_effect_order(ctx):
    import z3
    out = []
    for prog in PROGRAMS:
        mod, fn, events, stages = analyse(prog)
        writes = [e for e in events if e[0] in ("flush", "immediate")]
        stage_lines = {nm: [e[1] for e in events if e[0] == "stage" and e[2] == nm] for nm in stages}
        first_write = min((e[1] for e in writes), default=None)
        out.append((f"{prog}: the program has a designated write site", [], z3.BoolVal(bool(writes))))
        missing = [nm for nm in stages if not stage_lines[nm]]
        if missing:
            # the stage list of this contract no longer matches the program (renamed / removed stage): stale contract, not a verdict
            from pyvc.types import Unsupported
            raise Unsupported(f"effect contract of {prog} is stale: stage call(s) {missing} not found in the function body")
        for nm in stages:
            out.append((f"{prog}: every call of stage {nm} precedes the first effect on the output path",
                        [], z3.BoolVal(first_write is not None and all(l < first_write for l in stage_lines[nm]))))
        if prog in ("gen_params", "gen_coords"):
            out.append((f"{prog}: the only effect on the output path is the deferred-writer flush", [],
                        z3.BoolVal(all(e[0] == "flush" for e in writes) and len(writes) == 1)))
        # straight-line: the write site is not inside a loop or a branch that could run before a stage
        def top_level_line(line):
            for st in fn.body:
                if st.lineno <= line <= getattr(st, "end_lineno", st.lineno):
                    return st
            return None
        if first_write is not None:
            st = top_level_line(first_write)
            out.append((f"{prog}: the first effect on the output path is not inside a loop", [], z3.BoolVal(not isinstance(st, (ast.For, ast.While)))))
    return out


def lemma_write_is_unconditional(ctx):
    """C11 (first clause: 'gen_params writes its output file for every input that passes mapping and link application'), as far as
    the control flow of gen_params itself decides it: after the ApplyLinks stage no statement of the function body can leave the
    function or skip the write -- there is no return / raise / break, and the deferred open, the itp writer and the flush are
    top-level, unconditional statements.  (Callees may still raise: ApplyModifications for modifications that do not fit, the
    vermouth writer for what it refuses -- decided by the bounded unit.)"""
    import z3
    from pyvc.types import Unsupported
    mod = source.load("polyply.src.gen_itp")
    fn = mod.functions.get("gen_params")
    if fn is None:
        raise Unsupported("gen_params not found (stale contract)")
    body = fn.body
    idx_links = [i for i, st in enumerate(body) if any(isinstance(n, ast.Call) and call_name(n) == "ApplyLinks" for n in ast.walk(st))]
    idx_flush = [i for i, st in enumerate(body) if any(isinstance(n, ast.Call) and is_flush(n) for n in ast.walk(st))]
    idx_open = [i for i, st in enumerate(body) if isinstance(st, ast.With) and any(isinstance(n, ast.Call) and call_name(n) == "deferred_open" for n in ast.walk(st.items[0].context_expr))]
    if not idx_links:
        raise Unsupported("the ApplyLinks stage was not found in gen_params (stale contract)")
    after = body[idx_links[-1] + 1:]
    exits = [n for st in after for n in ast.walk(st) if isinstance(n, (ast.Return, ast.Raise, ast.Break, ast.Continue))]
    writer_in_with = bool(idx_open) and any(isinstance(n, ast.Call) and call_name(n) == "write_molecule_itp" for n in ast.walk(body[idx_open[-1]]))
    return [("gen_params: the deferred open and the flush are top-level statements after the ApplyLinks stage", [],
             z3.BoolVal(bool(idx_open) and bool(idx_flush) and idx_links[-1] < idx_open[-1] < idx_flush[-1])),
            ("gen_params: the itp writer is called inside the deferred-open block", [], z3.BoolVal(writer_in_with)),
            ("gen_params: no return / raise / break between the ApplyLinks stage and the end of the function"
             + (f"  [line {exits[0].lineno}]" if exits else ""), [], z3.BoolVal(not exits))]


def lemma_dsdna_route(ctx):
    """C19, the part that the control flow of gen_params decides: with the -dsdna option the completion runs on EVERY route by which
    the strand can be given (-seq tokens or a sequence file), on the residue graph that is then mapped: the call of complement_dsDNA is
    a top-level statement of gen_params guarded by the option alone, after every construction of the residue graph, before the mapping."""
    import z3
    from pyvc.types import Unsupported
    mod = source.load("polyply.src.gen_itp")
    fn = mod.functions.get("gen_params")
    if fn is None:
        raise Unsupported("gen_params not found (stale contract)")
    body = fn.body

    def calls(st, name):
        return [n for n in ast.walk(st) if isinstance(n, ast.Call) and call_name(n) == name]
    where = [i for i, st in enumerate(body) if calls(st, "complement_dsDNA")]
    anywhere = [n for n in ast.walk(fn) if isinstance(n, ast.Call) and call_name(n) == "complement_dsDNA"]
    if not anywhere:
        raise Unsupported("complement_dsDNA is not called in gen_params (stale contract)")
    top = [body[i] for i in where]
    guarded = bool(top) and all(isinstance(st, ast.If) and isinstance(st.test, ast.Name) and st.test.id == "dsdna" and not st.orelse
                                and any(calls(s, "complement_dsDNA") for s in st.body) for st in top)
    # the graph constructions: statements that bind meta_molecule before the completion
    binds = [i for i, st in enumerate(body) for n in ast.walk(st)
             if isinstance(n, ast.Assign) and any(isinstance(t, ast.Name) and t.id == "meta_molecule" for t in n.targets)
             and any(isinstance(c, ast.Call) and call_name(c) in ("from_monomer_seq_linear", "from_sequence_file", "from_itp", "from_block") for c in ast.walk(n.value))]
    maps = [i for i, st in enumerate(body) if calls(st, "MapToMolecule")]
    args_ok = all(len(c.args) == 1 and isinstance(c.args[0], ast.Name) and c.args[0].id == "meta_molecule" for c in anywhere)
    rebinds = [n for st in body[:(where[0] if where else 0)] for n in ast.walk(st)
               if isinstance(n, (ast.Assign, ast.AugAssign, ast.AnnAssign)) and any(isinstance(t, ast.Name) and t.id == "dsdna" for t in (n.targets if isinstance(n, ast.Assign) else [n.target]))]
    return [("gen_params: every call of complement_dsDNA sits in a top-level `if dsdna:` statement (guarded by the option alone, on every input route)", [],
             z3.BoolVal(guarded and len(where) == len(anywhere) == 1)),
            ("gen_params: the completion comes after every construction of the residue graph and before the mapping stage", [],
             z3.BoolVal(bool(where) and bool(binds) and bool(maps) and max(binds) < where[0] < min(maps))),
            ("gen_params: the completed graph is the one that is mapped (argument meta_molecule) and the option is not rebound before", [],
             z3.BoolVal(args_ok and not rebinds))]


def lemma_split_once(ctx):
    """C18 (splitting partitions the atoms ...): MetaMolecule.split_residue interprets ALL split strings against the unsplit molecule and
    relabels once -- the relabelling (which renumbers residues and so shifts what a later string would address) is a single top-level
    call after the loop, on the accumulated mapping; inside the loop only the mapping is extended."""
    import z3
    from pyvc.types import Unsupported
    mod = source.load("polyply.src.meta_molecule")
    fn = mod.functions.get("MetaMolecule.split_residue")
    if fn is None:
        raise Unsupported("MetaMolecule.split_residue not found (stale contract)")
    relabels = [n for n in ast.walk(fn) if isinstance(n, ast.Call) and call_name(n) == "relabel_and_redo_res_graph"]
    loops = [st for st in fn.body if isinstance(st, (ast.For, ast.While))]
    in_loop = [n for lp in loops for n in ast.walk(lp) if isinstance(n, ast.Call) and call_name(n) == "relabel_and_redo_res_graph"]
    top = [i for i, st in enumerate(fn.body) if isinstance(st, ast.Expr) and isinstance(st.value, ast.Call) and call_name(st.value) == "relabel_and_redo_res_graph"]
    loop_idx = [i for i, st in enumerate(fn.body) if isinstance(st, (ast.For, ast.While))]
    updates = [n for lp in loops for n in ast.walk(lp) if isinstance(n, ast.Call) and call_name(n) == "update"
               and isinstance(n.func, ast.Attribute) and isinstance(n.func.value, ast.Name)]
    acc = updates[0].func.value.id if updates else None
    arg_ok = bool(relabels) and all(len(c.args) == 1 and isinstance(c.args[0], ast.Name) and c.args[0].id == acc for c in relabels)
    interp = [n for lp in loops for n in ast.walk(lp) if isinstance(n, ast.Call) and call_name(n) == "_interpret_residue_mapping"]
    unsplit = all(len(c.args) >= 1 and ast.unparse(c.args[0]) == "self.molecule" for c in interp)
    return [("split_residue: the residue graph is relabelled exactly once, by a top-level call after the loop over the split strings", [],
             z3.BoolVal(len(relabels) == 1 and not in_loop and len(top) == 1 and bool(loop_idx) and top[0] > max(loop_idx))),
            ("split_residue: every split string is interpreted against the molecule and only extends the accumulated mapping, which is what is relabelled", [],
             z3.BoolVal(bool(interp) and unsplit and arg_ok))]


def lemma_box_precedence(ctx):
    """C03 ('It carries the box that was requested, or the box of the input structure when one is given, or a cubic box ...'), the part
    gen_coords' own control flow decides: the statements of gen_coords that rebind `box` between the reading of the input structure and
    the construction of BuildSystem are interpreted over three atoms (A: a box was requested, B: the input structure has a box,
    E: the two are equal); obligations: B implies the box handed to BuildSystem is the box of the input structure (or the equal requested
    one), not B implies it is the requested one (None: BuildSystem.__init__ then derives it from the density -- contract INIT_BOX);
    BuildSystem receives that `box` and the density; the structure is written with topology.box (which __init__ sets)."""
    import z3
    from pyvc.types import Unsupported
    mod = source.load("polyply.src.gen_coords")
    fn = mod.functions.get("gen_coords")
    if fn is None:
        raise Unsupported("gen_coords not found (stale contract)")
    A, B, E = z3.Bools("box_requested structure_has_box boxes_equal")

    def cond(e):
        if isinstance(e, ast.BoolOp):
            parts = [cond(v) for v in e.values]
            return z3.And(*parts) if isinstance(e.op, ast.And) else z3.Or(*parts)
        if isinstance(e, ast.UnaryOp) and isinstance(e.op, ast.Not):
            return z3.Not(cond(e.operand))
        txt = ast.unparse(e)
        if txt == "box is not None":
            return A
        if txt == "box is None":
            return z3.Not(A)
        if txt == "topology.box is not None":
            return B
        if txt == "topology.box is None":
            return z3.Not(B)
        if txt in ("np.array_equal(topology.box, box)", "np.array_equal(box, topology.box)"):
            return E
        return z3.Bool("other condition: " + txt)        # anything else the choice is made to depend on: arbitrary

    def writes_box(st):
        return any(isinstance(n, (ast.Assign, ast.AugAssign)) and any(isinstance(t, ast.Name) and t.id == "box" for t in (n.targets if isinstance(n, ast.Assign) else [n.target]))
                   for n in ast.walk(st))
    idx_build = [i for i, st in enumerate(fn.body) if any(isinstance(n, ast.Call) and call_name(n) == "BuildSystem" for n in ast.walk(st))]
    if not idx_build:
        raise Unsupported("BuildSystem is not constructed in gen_coords (stale contract)")
    # symbolic value of `box` : 0 = the requested box (possibly None), 1 = the box of the input structure
    val = z3.IntVal(0)

    def run(stmts, val):
        for st in stmts:
            if isinstance(st, ast.If) and writes_box(st):
                c = cond(st.test)
                val = z3.If(c, run(st.body, val), run(st.orelse, val))
            elif isinstance(st, ast.Assign) and len(st.targets) == 1 and isinstance(st.targets[0], ast.Name) and st.targets[0].id == "box":
                if ast.unparse(st.value) == "topology.box":
                    val = z3.IntVal(1)
                elif ast.unparse(st.value) != "box":
                    val = z3.IntVal(2)          # some other value: neither the requested box nor the box of the input structure
            elif writes_box(st):
                raise Unsupported(f"gen_coords rebinds `box` inside a statement this contract does not interpret (line {st.lineno})")
        return val
    final = run(fn.body[:idx_build[0]], val)
    call = next(n for n in ast.walk(fn.body[idx_build[0]]) if isinstance(n, ast.Call) and call_name(n) == "BuildSystem")
    kw = {k.arg: ast.unparse(k.value) for k in call.keywords}
    wg = [n for n in ast.walk(fn) if isinstance(n, ast.Call) and call_name(n) == "write_gro"]
    wkw = {k.arg: ast.unparse(k.value) for c_ in wg for k in c_.keywords}
    return [("gen_coords: when the input structure has a box, BuildSystem gets that box (or the equal requested one)", [B], z3.Or(final == 1, z3.And(final == 0, A, E))),
            ("gen_coords: when the input structure has no box, BuildSystem gets the requested box (None: derived from the density)", [z3.Not(B)], final == 0),
            ("gen_coords: BuildSystem is constructed with that box and the requested density", [], z3.BoolVal(kw.get("box") == "box" and kw.get("density") == "density")),
            ("gen_coords: the structure is written with the box the topology carries after the build (set by BuildSystem.__init__)", [],
             z3.BoolVal(len(wg) == 1 and wkw.get("box") == "topology.box"))]


def lemma_versions_per_type(ctx):
    """C02 ('if several matches define the same atoms and version the one from the link defined last wins'): ApplyLinks keys an interaction
    by (atoms, version) WITHIN its interaction type, so the version tags that PolyplyParser.treat_link_multiple hands out must count
    identical atom tuples per interaction type of a link -- static obligations over the real AST: the counter is created inside the loop
    over the interaction types of the link, from the terms of that type only, and the terms tagged are the same terms."""
    import z3
    from pyvc.types import Unsupported
    mod = source.load("polyply.src.polyply_parser")
    fn = mod.functions.get("PolyplyParser.treat_link_multiple")
    if fn is None:
        raise Unsupported("PolyplyParser.treat_link_multiple not found (stale contract)")
    parents = {}
    for p in ast.walk(fn):
        for ch in ast.iter_child_nodes(p):
            parents[id(ch)] = p

    def loops_around(n):
        out = []
        while id(n) in parents:
            n = parents[id(n)]
            if isinstance(n, ast.For):
                out.append(n)
        return out
    counters = [n for n in ast.walk(fn) if isinstance(n, ast.Assign) and isinstance(n.value, ast.Call) and call_name(n.value) == "Counter"]
    if not counters:
        raise Unsupported("treat_link_multiple no longer uses a Counter (stale contract)")

    def per_type_loop(lp):
        """for <key> in <link>.interactions  (or .items() / .keys())"""
        return ast.unparse(lp.iter).replace(".keys()", "").replace(".items()", "").endswith(".interactions")
    ok_scope, ok_source, ok_tagged = True, True, True
    for cn in counters:
        around = loops_around(cn)
        type_loops = [lp for lp in around if per_type_loop(lp)]
        ok_scope &= bool(type_loops)
        if not type_loops:
            continue
        key = ast.unparse(type_loops[0].target).strip("()").split(",")[0].strip()
        link = ast.unparse(type_loops[0].iter).split(".interactions")[0]
        # names bound to the terms of this type inside that loop
        per_type = {f"{link}.interactions[{key}]"}
        if isinstance(type_loops[0].target, ast.Tuple) and len(type_loops[0].target.elts) == 2 and ".items()" in ast.unparse(type_loops[0].iter):
            per_type.add(ast.unparse(type_loops[0].target.elts[1]))
        for st in type_loops[0].body:
            if isinstance(st, ast.Assign) and len(st.targets) == 1 and isinstance(st.targets[0], ast.Name) and ast.unparse(st.value) in per_type:
                per_type.add(st.targets[0].id)
        gens = [g for g in ast.walk(cn.value) if isinstance(g, ast.comprehension)]
        ok_source &= len(gens) == 1 and ast.unparse(gens[0].iter) in per_type and not gens[0].ifs
        cname = cn.targets[0].id if isinstance(cn.targets[0], ast.Name) else None
        tag_loops = [lp for lp in ast.walk(type_loops[0]) if isinstance(lp, ast.For) and lp is not type_loops[0]
                     and any(isinstance(n, ast.Subscript) and isinstance(n.value, ast.Name) and n.value.id == cname for n in ast.walk(lp))]
        ok_tagged &= len(tag_loops) == 1 and ast.unparse(tag_loops[0].iter) in per_type
    return [("treat_link_multiple: the counter of identical atom tuples is created inside the loop over the interaction types of a link", [], z3.BoolVal(ok_scope)),
            ("treat_link_multiple: it counts the terms of that interaction type only", [], z3.BoolVal(ok_scope and ok_source)),
            ("treat_link_multiple: the terms that receive the version tags are the terms of that type", [], z3.BoolVal(ok_scope and ok_tagged))]

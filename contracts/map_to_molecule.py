"""Contracts for polyply/src/map_to_molecule.py (C14, C01, C13)."""
import z3
from pyvc.types import (TInt, TReal, TBool, TStr, TNode, TObj, TTuple, TVec, TList, TDict, TRec, TOpt, key_term)
from pyvc.contract import Contract, Registry, Loop
from pyvc import ops

REG = Registry()
BLOCK = TRec("vermouth.molecule:Block", nrexcl=TInt, attr_exclude=TOpt(TInt))
FF = TRec("vermouth.forcefield:ForceField", blocks=TDict(TStr, BLOCK))
N2B = TDict(TNode, TStr)
n_, n2_ = z3.Consts("n_ n2_", TNode.sort)
b_ = z3.String("b_")


def blk(ff, name):
    d = ff.fields["blocks"]
    return d.v.unflat([c[name] for c in d.comps])


def used(n2b, b, pos=None, k=None):
    """some (already visited) residue is mapped to block b"""
    cond = z3.And(n2b.dom[n_], n2b.comps[0][n_] == b)
    if pos is not None:
        cond = z3.And(cond, pos(n_) < k)
    return z3.Exists([n_], cond)


def uniform(n2b, ff):
    nr = ff.fields["blocks"].comps[0]
    return z3.ForAll([n_, n2_], z3.Implies(z3.And(n2b.dom[n_], n2b.dom[n2_]), nr[n2b.comps[0][n_]] == nr[n2b.comps[0][n2_]]))


def is_min(m, n2b, ff):
    nr = ff.fields["blocks"].comps[0]
    return z3.And(z3.ForAll([n_], z3.Implies(n2b.dom[n_], m <= nr[n2b.comps[0][n_]])),
                  z3.Exists([n_], z3.And(n2b.dom[n_], nr[n2b.comps[0][n_]] == m)))


def tagged(new_ff, old_ff, n2b, m, pos=None, k=None):
    """blocks of (visited) residues: exclude := original distance, nrexcl := the minimum; all other blocks untouched"""
    nb, ob = new_ff.fields["blocks"], old_ff.fields["blocks"]
    new_b, old_b = blk(new_ff, b_), blk(old_ff, b_)
    return z3.And(nb.dom == ob.dom, z3.ForAll([b_], z3.Implies(ob.dom[b_], z3.If(
        used(n2b, b_, pos, k),
        z3.And(new_b.fields["nrexcl"] == m, z3.Not(new_b.fields["attr_exclude"].none), new_b.fields["attr_exclude"].val == old_b.fields["nrexcl"]),
        BLOCK.eq(new_b, old_b)))))


def names_known(n2b, ff):
    return z3.ForAll([n_], z3.Implies(n2b.dom[n_], ff.fields["blocks"].dom[n2b.comps[0][n_]]))


def excls_inv(excls, n2b, ff, pos, k):
    nr = ff.fields["blocks"].comps[0]
    return z3.ForAll([n_], z3.And(excls.dom[n_] == z3.And(n2b.dom[n_], pos(n_) < k),
                                  z3.Implies(excls.dom[n_], excls.comps[0][n_] == nr[n2b.comps[0][n_]])))


TAG_EXCL = REG.add(Contract(
    "polyply.src.map_to_molecule:tag_exclusions",
    params=dict(node_to_block=N2B, force_field=FF),
    requires={"every residue names a block of the force field": "names_known(node_to_block, force_field)"},
    ensures={
        "with a uniform exclusion distance nothing is written (the molecule keeps it, no exclusions are invented)":
            "implies(uniform(node_to_block, old(force_field)), FF_eq(force_field, old(force_field)))",
        "with mixed distances every involved block is tagged with its ORIGINAL distance and gets the minimum; other blocks are untouched":
            "implies(Not(uniform(node_to_block, old(force_field))), And(is_min(local('min_excl', 0), node_to_block, old(force_field)), tagged(force_field, old(force_field), node_to_block, local('min_excl', 0))))",
    },
    loops={0: Loop({"recorded": "excls_inv(excls, node_to_block, force_field, _pos0, k)", "untouched": "FF_eq(force_field, old(force_field))"}),
           1: Loop({"tagged so far": "tagged(force_field, old(force_field), node_to_block, min_excl, _pos1, k)",
                    "recorded": "excls_full(excls, node_to_block, old(force_field))",
                    "minimum": "is_min(min_excl, node_to_block, old(force_field))"})},
    locals={"excls": TDict(TNode, TInt)},
    spec_fns={"names_known": names_known, "uniform": uniform, "is_min": is_min, "tagged": tagged, "excls_inv": excls_inv,
              "FF_eq": lambda a, b: FF.eq(a, b),
              "exists_min": lambda f: z3.Exists([z3.Int("m_")], f(z3.Int("m_"))),
              "excls_full": lambda e, n2b, ff: z3.ForAll([n_], z3.And(e.dom[n_] == n2b.dom[n_], z3.Implies(e.dom[n_], e.comps[0][n_] == ff.fields["blocks"].comps[0][n2b.comps[0][n_]])))},
    props=("C14", "C13"),
))

"""C15: virtual-site constructions of polyply/src/virtual_site_builder.py against the GROMACS manual (reference manual,
'Virtual interaction sites'), transcribed below.  r_ab = r_b - r_a."""
import z3
from pyvc.types import (TInt, TReal, TBool, TStr, TNode, TObj, TTuple, TVec, TList, TDict, TRec, TOpt, NArr, key_term)
from pyvc.contract import Contract, Registry
from pyvc import ops, source
from pyvc.prelude import PI

REG = Registry()
V3 = TVec(3)
POS = TDict(TNode, V3)


def inter(n_atoms, n_params):
    return TRec("vermouth.molecule:Interaction", atoms=TTuple(*([TNode] * n_atoms)), parameters=TTuple(TStr, *([TReal] * n_params)))


def P(positions, node):
    return [c[node] for c in positions.comps]


def sub(a, b):
    return [x - y for x, y in zip(a, b)]


def add(*vs):
    return [z3.Sum(*xs) for xs in zip(*vs)]


def scale(s, v):
    return [s * x for x in v]


def dot(a, b):
    return z3.Sum(*[x * y for x, y in zip(a, b)])


def cross(a, b):
    return [a[1] * b[2] - a[2] * b[1], a[2] * b[0] - a[0] * b[2], a[0] * b[1] - a[1] * b[0]]


def nrm(v):
    return ops.SQRT(z3.simplify(dot(v, v)))


def eqv(result, v):
    return z3.And(*[ops.real(r) == x for r, x in zip(result.data, v)])


def known(interaction, positions):
    return z3.And(*[z3.Select(positions.dom, a) for a in interaction.fields["atoms"][1:]])


def prm(interaction, i):
    return ops.real(interaction.fields["parameters"][i])


def atoms(interaction, positions):
    return [P(positions, a) for a in interaction.fields["atoms"][1:]]


SPECS = {}


def spec(name):
    def deco(f):
        SPECS[name] = f
        return f
    return deco


class Vec:
    """3-vector with numpy-like operators whose terms are built by pyvc's own arithmetic (ops.ew), so that a formula written
    here as in the GROMACS manual yields the same term structure as the same formula written with numpy in the code"""
    facts = ops.Facts()

    def __init__(self, comps):
        self.c = list(comps)

    @staticmethod
    def lift(x):
        return x.c if isinstance(x, Vec) else x

    def _bin(self, op, o, swap=False):
        a, b = NArr((3,), self.c), (NArr((3,), o.c) if isinstance(o, Vec) else o)
        r = ops.ew(op, b, a, Vec.facts) if swap else ops.ew(op, a, b, Vec.facts)
        return Vec(r.data)

    def __add__(self, o): return self._bin("+", o)
    def __radd__(self, o): return self._bin("+", o, True)
    def __sub__(self, o): return self._bin("-", o)
    def __mul__(self, o): return self._bin("*", o)
    def __rmul__(self, o): return self._bin("*", o, True)
    def __truediv__(self, o): return self._bin("/", o)


def mul(scalar, v):
    """scalar * vector, operands in numpy's order"""
    return v._bin("*", scalar, True)


def vdot(a, b):
    out = ops.F(0)
    for x, y in zip(a.c, b.c):
        out = ops.arith("+", out, ops.arith("*", x, y, Vec.facts), Vec.facts)
    return out


def vnorm(a):
    return ops.SQRT(ops.real(vdot(a, a)))


def vcross(a, b):
    m = lambda x, y: ops.arith("*", x, y, Vec.facts)      # noqa: E731
    d = lambda x, y: ops.arith("-", x, y, Vec.facts)      # noqa: E731
    a0, a1, a2 = a.c
    b0, b1, b2 = b.c
    return Vec([d(m(a1, b2), m(a2, b1)), d(m(a2, b0), m(a0, b2)), d(m(a0, b1), m(a1, b0))])


def vatoms(interaction, positions):
    return [Vec(P(positions, a)) for a in interaction.fields["atoms"][1:]]


def veq(result, v):
    return z3.And(*[ops.real(r) == ops.real(x) for r, x in zip(result.data, v.c)])


def wavg(vs, ws):
    """weighted mean sum_i w_i r_i / sum_i w_i"""
    tot = ops.F(0)
    for w in ws:
        tot = ops.arith("+", tot, w, Vec.facts)
    out = []
    for j in range(3):
        acc = ops.F(0)
        for v, w in zip(vs, ws):
            acc = ops.arith("+", acc, ops.arith("*", v.c[j], w, Vec.facts), Vec.facts)
        out.append(ops.arith("/", acc, tot, Vec.facts))
    return Vec(out)


@spec("vs2")
def s_vs2(result, interaction, positions):
    ri, rj = vatoms(interaction, positions)
    a = prm(interaction, 1)
    return veq(result, wavg([ri, rj], [1 - a, a]))                                  # r = (1-a) r_i + a r_j   (weights sum to 1)


@spec("vs3")
def s_vs3(result, interaction, positions):
    ri, rj, rk = vatoms(interaction, positions)
    a, b = prm(interaction, 1), prm(interaction, 2)
    return veq(result, wavg([ri, rj, rk], [1 - a - b, a, b]))                        # r = (1-a-b) r_i + a r_j + b r_k


@spec("vs3fd")
def s_vs3fd(result, interaction, positions):
    ri, rj, rk = vatoms(interaction, positions)
    a, b = prm(interaction, 1), prm(interaction, 2)
    rij, rjk = rj - ri, rk - rj
    return veq(result, ri + (mul(b, rij + mul(a, rjk)) / vnorm(rij + mul(a, rjk))))            # r = r_i + b (r_ij + a r_jk)/|r_ij + a r_jk|


@spec("vs3fad")
def s_vs3fad(result, interaction, positions):
    ri, rj, rk = vatoms(interaction, positions)
    theta, d = prm(interaction, 1), prm(interaction, 2)
    rij, rjk = rj - ri, rk - rj
    rperp = rjk - rij * vdot(rij, rjk) / vdot(rij, rij)                              # r_perp = r_jk - (r_ij.r_jk / r_ij.r_ij) r_ij
    th = theta * PI / 180
    return veq(result, ri + mul(d, mul(ops.COS(th), rij) / vnorm(rij)) + mul(d, mul(ops.SIN(th), rperp) / vnorm(rperp)))


@spec("vs3out")
def s_vs3out(result, interaction, positions):
    ri, rj, rk = vatoms(interaction, positions)
    a, b, c = prm(interaction, 1), prm(interaction, 2), prm(interaction, 3)
    rij, rik = rj - ri, rk - ri
    return veq(result, ri + mul(a, rij) + mul(b, rik) + mul(c, vcross(rij, rik)))                # r = r_i + a r_ij + b r_ik + c (r_ij x r_ik)


@spec("vs4fdn")
def s_vs4fdn(result, interaction, positions):
    ri, rj, rk, rl = vatoms(interaction, positions)
    a, b, c = prm(interaction, 1), prm(interaction, 2), prm(interaction, 3)
    rij, rik, ril = rj - ri, rk - ri, rl - ri
    rja, rjb = mul(a, rik) - rij, mul(b, ril) - rij
    rm = vcross(rja, rjb)
    return veq(result, ri + mul(c, rm) / vnorm(rm))                                       # r = r_i + c r_m/|r_m|


def nonzero_pre(name):
    def f(interaction, positions):
        at = vatoms(interaction, positions)
        if name == "vs3fd":
            ri, rj, rk = at
            d = (rj - ri) + mul(prm(interaction, 1), rk - rj)
            return z3.And(ops.real(vdot(d, d)) > 0, vnorm(d) > 0)
        if name == "vs3fad":
            ri, rj, rk = at
            rij, rjk = rj - ri, rk - rj
            rperp = rjk - rij * vdot(rij, rjk) / vdot(rij, rij)
            return z3.And(ops.real(vdot(rij, rij)) > 0, ops.real(vdot(rperp, rperp)) > 0, vnorm(rij) > 0, vnorm(rperp) > 0)
        if name == "vs4fdn":
            ri, rj, rk, rl = at
            rij, rik, ril = rj - ri, rk - ri, rl - ri
            rm = vcross(mul(prm(interaction, 1), rik) - rij, mul(prm(interaction, 2), ril) - rij)
            return z3.And(ops.real(vdot(rm, rm)) > 0, vnorm(rm) > 0)
        return z3.BoolVal(True)
    return f


def _adapt(args):
    """replay: the record becomes a real vermouth Interaction (numeric parameters as the strings the parser delivers)"""
    from vermouth.molecule import Interaction
    it = args["interaction"]
    return {"interaction": Interaction(atoms=list(it["atoms"]), parameters=[it["parameters"][0]] + [repr(float(x)) for x in it["parameters"][1:]], meta={}),
            "positions": args["positions"]}


SHAPES = {"vs2": (3, 1), "vs3": (4, 2), "vs3fd": (4, 2), "vs3fad": (4, 2), "vs3out": (4, 3), "vs4fdn": (5, 3)}
CONTRACTS = []
for _name, (_na, _np) in SHAPES.items():
    CONTRACTS.append(REG.add(Contract(
        f"polyply.src.virtual_site_builder:{_name}",
        params=dict(interaction=inter(_na, _np), positions=POS),
        result=V3,
        requires={"the defining atoms have positions": "known(interaction, positions)",
                  "non-degenerate geometry (numpy would produce nan)": "nondeg(interaction, positions)"},
        ensures={"the site is where GROMACS constructs it": "gromacs(result, interaction, positions)"},
        spec_fns={"known": known, "nondeg": nonzero_pre(_name), "gromacs": SPECS[_name]},
        props=("C15",), let_abstraction=False, adapt=lambda a: _adapt(a),
    )))

# centre of geometry of 1..4 defining atoms (virtual_sitesn as polyply builds it)
for _n in (1, 2, 3, 4):
    def _cog(result, interaction, positions, _n=_n):
        at = atoms(interaction, positions)
        return eqv(result, scale(z3.RealVal(1) / _n, add(*at)) if _n > 1 else at[0])
    CONTRACTS.append(Contract(
        "polyply.src.virtual_site_builder:vsn1",
        params=dict(interaction=inter(_n + 1, 0), positions=POS), result=V3,
        requires={"the defining atoms have positions": "known(interaction, positions)"},
        ensures={f"centre of geometry of the {_n} defining atoms": "cog(result, interaction, positions)"},
        spec_fns={"known": known, "cog": _cog}, props=("C15",), note=f"instance with {_n} defining atoms", instance=f"n{_n}", adapt=lambda a: _adapt(a)))


def lemma_dispatch_table(ctx):
    """the table (section, function number) -> construction, read from the real source, against the GROMACS numbering"""
    mod = source.load("polyply.src.virtual_site_builder")
    src = mod.segment(mod.assigns["VIRTUAL_SITES"])
    import ast
    table = {}
    for k, v in zip(mod.assigns["VIRTUAL_SITES"].keys, mod.assigns["VIRTUAL_SITES"].values):
        table[(k.elts[0].value, k.elts[1].value)] = v.id
    gromacs = {("virtual_sites2", "1"): "vs2", ("virtual_sites3", "1"): "vs3", ("virtual_sites3", "2"): "vs3fd",
               ("virtual_sites3", "3"): "vs3fad", ("virtual_sites3", "4"): "vs3out", ("virtual_sites4", "2"): "vs4fdn"}
    return [(f"[ {sec} ] function {fn} is built by {fname}", [], z3.BoolVal(table.get((sec, fn)) == fname)) for (sec, fn), fname in gromacs.items()]

"""Evaluator for specification expressions (requires / ensures / invariants).

Same Python syntax as the code, but pure and total: `and/or/not` become logical connectives
(short-circuiting only on concrete operands), lookups do not create obligations, and the
specification built-ins below are available.
    old(e)            e evaluated in the pre-state
    implies(a, b), iff(a, b), ite(c, a, b)
    forall(lambda i, j: body)            integer-bound variables
    forall(lambda x: body, sort="Node")  other sorts: Node, Real, Str, Obj
    exists(...)                          same form
"""
import ast
import z3
from fractions import Fraction
from decimal import Decimal
from .types import (NArr, SList, SDict, SSet, Rec, Opt, CList, Unsupported, is_sym, R, I, B, S, TNode, TObj,
                    slist_get, slist_slice, norm_index, norm_slice_bound, key_term)
from . import ops
from .ops import F, b_and, b_or, b_not, truth, values_equal

SORTS = {"Int": z3.IntSort(), "Real": z3.RealSort(), "Node": TNode.sort, "Str": z3.StringSort(), "Obj": TObj.sort,
         "Bool": z3.BoolSort()}


class SpecEval:
    def __init__(self, eng, env, old_env, fns, extra):
        self.eng, self.env, self.old_env, self.fns, self.extra = eng, env, old_env, fns, extra
        self.bound = {}

    def ev(self, node):
        m = getattr(self, "ev_" + type(node).__name__, None)
        if m is None:
            raise Unsupported(f"spec expression {type(node).__name__}")
        return m(node)

    def ev_Constant(self, node):
        v = node.value
        if isinstance(v, float):
            return F(Fraction(Decimal(repr(v))))
        return v

    def ev_Name(self, node):
        n = node.id
        if n in self.bound:
            return self.bound[n]
        if n in self.env:
            return self.env[n]
        if n in self.extra:
            return self.extra[n]
        if n in self.fns:
            return self.fns[n]
        if n in ("True", "False", "None"):
            return {"True": True, "False": False, "None": None}[n]
        if n in SPEC_BUILTINS:
            return SPEC_BUILTINS[n]
        # module-level constants of the function's module
        try:
            return self.eng.module_name(self.eng.frames[0].mod, n) if self.eng.frames else None
        except Unsupported:
            pass
        raise Unsupported(f"unbound name {n!r} in specification")

    def ev_Tuple(self, node):
        return tuple(self.ev(e) for e in node.elts)

    def ev_List(self, node):
        return CList(self.ev(e) for e in node.elts)

    def ev_BoolOp(self, node):
        vals = []
        is_and = isinstance(node.op, ast.And)
        for e in node.values:
            v = truth(self.ev(e))
            if isinstance(v, bool):
                if is_and and not v:
                    return False
                if not is_and and v:
                    return True
                continue
            vals.append(v)
        return b_and(*vals) if is_and else b_or(*vals)

    def ev_UnaryOp(self, node):
        v = self.ev(node.operand)
        op = {ast.USub: "-", ast.UAdd: "+", ast.Not: "not"}[type(node.op)]
        return ops.unary(op, v, self.eng.facts)

    def ev_BinOp(self, node):
        from .engine import BINOPS
        return ops.binop(BINOPS[type(node.op)], self.ev(node.left), self.ev(node.right), self.eng.facts)

    def ev_Compare(self, node):
        from .engine import CMPOPS
        left = self.ev(node.left)
        out = []
        for op, rn in zip(node.ops, node.comparators):
            right = self.ev(rn)
            if isinstance(op, (ast.Is, ast.IsNot)):
                r = self.eng.identity(left, right)
                r = r if isinstance(op, ast.Is) else b_not(r)
            elif isinstance(op, (ast.In, ast.NotIn)):
                r = ops.contains(right, left, self.eng.facts)
                r = r if isinstance(op, ast.In) else b_not(r)
            else:
                r = ops.compare(CMPOPS[type(op)], left, right)
                if isinstance(r, NArr):
                    r = b_and(*r.data)
            out.append(r)
            left = right
        return b_and(*out)

    def ev_IfExp(self, node):
        c = truth(self.ev(node.test))
        if isinstance(c, bool):
            return self.ev(node.body) if c else self.ev(node.orelse)
        return ite(c, self.ev(node.body), self.ev(node.orelse))

    def ev_Attribute(self, node):
        base = self.ev(node.value)
        if isinstance(base, Rec):
            if node.attr in base.fields:
                return base.fields[node.attr]
            raise Unsupported(f"spec: record {base.cls} has no field {node.attr}")
        if isinstance(base, NArr) and node.attr == "shape":
            return base.shape
        if isinstance(base, SList) and node.attr == "n":
            return base.n
        raise Unsupported(f"spec attribute .{node.attr} on {type(base).__name__}")

    def ev_Subscript(self, node):
        base = self.ev(node.value)
        if isinstance(node.slice, ast.Slice):
            lo = self.ev(node.slice.lower) if node.slice.lower is not None else None
            hi = self.ev(node.slice.upper) if node.slice.upper is not None else None
            if node.slice.step is not None:
                st = self.ev(node.slice.step)
                if isinstance(base, (tuple, CList)) and all(x is None or isinstance(x, int) for x in (lo, hi, st)):
                    return type(base)(base[slice(lo, hi, st)])
                raise Unsupported("spec slice with step")
            if isinstance(base, (tuple, CList, str)) and all(x is None or isinstance(x, int) for x in (lo, hi)):
                r = base[slice(lo, hi)]
                return CList(r) if isinstance(base, CList) else r
            if isinstance(base, SList):
                return slist_slice(base, norm_slice_bound(lo, base.n, z3.IntVal(0)), norm_slice_bound(hi, base.n, base.n))
            raise Unsupported("spec slice")
        idx = self.ev(node.slice)
        return read(base, idx)

    def ev_Call(self, node):
        if isinstance(node.func, ast.Name):
            n = node.func.id
            if n == "old":
                return SpecEval(self.eng, self.old_env, self.old_env, self.fns, self.extra)._with_bound(self.bound).ev(node.args[0])
            if n == "implies":
                a = truth(self.ev(node.args[0]))
                if a is False:
                    return True
                b = truth(self.ev(node.args[1]))
                if a is True:
                    return b
                return z3.Implies(B(a), B(b))
            if n in ("forall", "exists"):
                return self.quant(n, node)
            if n == "local":
                # local('name', default): final value of a local of the function if it is bound on this path
                nm = node.args[0].value
                if nm in self.env:
                    return self.env[nm]
                return self.ev(node.args[1])
        fn = self.ev(node.func)
        args = []
        for a in node.args:
            if isinstance(a, ast.Starred):
                args.extend(list(self.ev(a.value)))
            else:
                args.append(self.ev(a))
        kwargs = {k.arg: self.ev(k.value) for k in node.keywords}
        if callable(fn):
            return fn(*args, **kwargs)
        raise Unsupported(f"spec call of {fn!r}")

    def _with_bound(self, bound):
        self.bound = dict(bound)
        return self

    def quant(self, which, node):
        lam = node.args[0]
        if not isinstance(lam, ast.Lambda):
            raise Unsupported("forall/exists need a lambda")
        sort = "Int"
        for kw in node.keywords:
            if kw.arg == "sort":
                sort = kw.value.value
        sorts = [s.strip() for s in sort.split(",")]
        names = [a.arg for a in lam.args.args]
        if len(sorts) == 1:
            sorts = sorts * len(names)
        vs = [z3.Const(f"{n}", SORTS[s]) for n, s in zip(names, sorts)]
        saved = dict(self.bound)
        self.bound.update(dict(zip(names, vs)))
        body = truth(self.ev(lam.body))
        self.bound = saved
        if isinstance(body, bool):
            return body
        return z3.ForAll(vs, body) if which == "forall" else z3.Exists(vs, body)

    def ev_Lambda(self, node):
        def f(*args):
            saved = dict(self.bound)
            self.bound.update({a.arg: v for a, v in zip(node.args.args, args)})
            try:
                return self.ev(node.body)
            finally:
                self.bound = saved
        return f

    def ev_ListComp(self, node):
        if len(node.generators) != 1:
            raise Unsupported("spec comprehension nesting")
        g = node.generators[0]
        items = self.eng.concrete_items(self.ev(g.iter))
        if items is None:
            raise Unsupported("spec comprehension over symbolic data (use forall)")
        out = []
        saved = dict(self.bound)
        for it in items:
            self._bind(g.target, it)
            conds = [truth(self.ev(c)) for c in g.ifs]
            if any(c is False for c in conds):
                continue
            if any(not isinstance(c, bool) for c in conds):
                raise Unsupported("spec comprehension with symbolic filter")
            out.append(self.ev(node.elt))
        self.bound = saved
        return CList(out)

    ev_GeneratorExp = ev_ListComp

    def _bind(self, tgt, val):
        if isinstance(tgt, ast.Name):
            self.bound[tgt.id] = val
        elif isinstance(tgt, ast.Tuple):
            vals = list(val.rows()) if isinstance(val, NArr) else list(val)
            for t, v in zip(tgt.elts, vals):
                self._bind(t, v)


def read(base, idx):
    """total read (no obligations)"""
    if isinstance(base, Opt):
        base = base.val
    if isinstance(base, (tuple, CList)):
        if isinstance(idx, int):
            return base[idx]
        from .engine import ite_chain
        n = len(base)
        i = norm_index(idx, n)
        return ite_chain([(i == j, base[j]) for j in range(n)])
    if isinstance(base, NArr):
        if isinstance(idx, int):
            return base.rows()[idx]
        if isinstance(idx, tuple) and len(idx) == 2 and all(isinstance(i, int) for i in idx):
            return base.data[idx[0] * base.shape[1] + idx[1]]
        raise Unsupported("spec array index")
    if isinstance(base, SList):
        return slist_get(base, norm_index(I(idx), base.n))
    if isinstance(base, SDict):
        kt = key_term(base.k, idx)
        return base.v.unflat([c[kt] for c in base.comps])
    if isinstance(base, dict):
        if not is_sym(idx):
            return base[idx]
        from .engine import ite_chain
        return ite_chain([(B(values_equal(k, idx)), v) for k, v in base.items()])
    if isinstance(base, Rec) and isinstance(idx, str):
        f = base.fields[idx]
        return f.val if isinstance(f, Opt) else f
    if isinstance(base, z3.ArrayRef):
        return base[idx]
    raise Unsupported(f"spec subscript of {type(base).__name__}")


def ite(c, a, b):
    if isinstance(c, bool):
        return a if c else b
    if isinstance(a, tuple) and isinstance(b, tuple) and len(a) == len(b):
        return tuple(ite(c, x, y) for x, y in zip(a, b))
    if isinstance(a, NArr) and isinstance(b, NArr) and a.shape == b.shape:
        return NArr(a.shape, [ite(c, x, y) for x, y in zip(a.data, b.data)])
    if ops.is_num(a) and ops.is_num(b):
        if ops.is_float(a) or ops.is_float(b):
            return z3.If(c, ops.real(a), ops.real(b))
        return z3.If(c, I(a), I(b))
    return z3.If(c, ops.term(a), ops.term(b))


def _iff(a, b):
    a, b = truth(a), truth(b)
    if isinstance(a, bool) and isinstance(b, bool):
        return a == b
    return B(a) == B(b)


def _len(x):
    if isinstance(x, SList):
        return x.n
    if isinstance(x, z3.SeqRef):
        return z3.Length(x)
    if isinstance(x, NArr):
        return x.shape[0]
    return len(x)


def _abs(x):
    if isinstance(x, int):
        return abs(x)
    if isinstance(x, F):
        return F(abs(x.q))
    return z3.If(x >= 0, x, -x)


def _dot(a, b):
    out = None
    for x, y in zip(a.data if isinstance(a, NArr) else a, b.data if isinstance(b, NArr) else b):
        t = ops.real(x) * ops.real(y)
        out = t if out is None else out + t
    return out


def _all(xs):
    return b_and(*[truth(x) for x in xs])


def _any(xs):
    return b_or(*[truth(x) for x in xs])


def _sum(xs):
    out = 0
    for x in xs:
        out = ops.arith("+", out, x, None)
    return out


def _isnone(x):
    if x is None:
        return True
    if isinstance(x, Opt):
        return x.none
    return False


def _unwrap(x):
    return x.val if isinstance(x, Opt) else x


SPEC_BUILTINS = {
    "iff": _iff, "ite": ite, "len": _len, "abs": _abs, "dot": _dot, "all": _all, "any": _any, "sum": _sum,
    "isnone": _isnone, "unwrap": _unwrap, "And": lambda *a: b_and(*a), "Or": lambda *a: b_or(*a), "Not": b_not,
    "real": ops.real, "tuple": tuple, "range": range, "zip": lambda *a: CList(zip(*a)), "reversed": lambda x: type(x)(reversed(x)),
    "enumerate": lambda x: CList(enumerate(x)),
}

"""Contracts (sidecar specifications of real repository functions) and the per-function
verification driver."""
import time
import z3
from . import source
from .engine import Engine, Frame, ReturnEx, PyRaise, PathEnd, exc_isa
from .types import Unsupported, VerifierError
from .ops import b_not


class Loop:
    def __init__(self, invariants, modifies=(), index="k", defs=None, head_assumptions=None):
        self.invariants = list(invariants.items()) if isinstance(invariants, dict) else list(invariants)
        # definitional axioms of ghost functions (e.g. a sum defined by recursion over the iterated sequence):
        # assumed at the loop head, never checked -- only conservative definitions may go here
        self.defs = list((defs or {}).items())
        # facts ASSUMED about the arbitrary iteration state (after the havoc), e.g. an assumed contract of a library object that the
        # iteration picks, or definitions of ghost functions that belong to the object of this iteration.  Never checked: every entry
        # is reported as an assumption.
        self.head_assumptions = list((head_assumptions or {}).items())
        self.modifies = list(modifies)
        self.index = index


class Contract:
    """
    target      "package.module:qualname" of the real function
    params      {name: type descriptor}     (symbolic inputs of the function under verification)
    result      type descriptor of the result as seen by *callers* (None: no result)
    requires    {label: spec}
    ensures     {label: spec}               may use result, old(.)
    raises      [(ExcName, spec)]           the function raises ExcName exactly when spec holds on entry
    modifies    ["param.field", ...]        frame as seen by callers (everything else unchanged)
    loops       {ordinal: Loop}
    inline      callers execute the body instead of using the contract (tiny helpers)
    inline_callees   keys of functions this function may inline
    """

    def __init__(self, target, params, result=None, requires=None, ensures=None, raises=(), modifies=(), loops=None,
                 spec_fns=None, inline=False, inline_callees=(), props=(), note="", trusted=False, witness=None, exposes=None, defines=None, ghost=None, locals=None, let_abstraction=True, adapt=None, instance=None, axioms=None, ghost_locals=None, raises_when=None, opaque_nonlinear=False, deep_wf=False):
        self.target = target
        self.module, self.qual = target.split(":")
        self.params = dict(params)
        self.result = result
        self.requires = list((requires or {}).items())
        self.ensures = list((ensures or {}).items())
        self.raises = list(raises)
        self.modifies = list(modifies)
        self.loops = dict(loops or {})
        self.spec_fns = dict(spec_fns or {})
        self.inline = inline
        self.inline_callees = tuple(inline_callees)
        self.props = tuple(props)
        self.note = note
        self.trusted = trusted          # assumed contract (dependency or not-yet-verified): never counted as proved
        self.witness = witness          # callable producing a concrete witness for the vacuity check
        self.defines = list((defines or {}).items())   # definitional clauses naming the result of a pure, deterministic function by an
        #                                                   uninterpreted symbol: assumed at call sites, not part of the body's obligations
        self.ghost = dict(ghost or {})      # {"after:<statement source, whitespace-normalised>": hook(engine, env)}: ghost updates (may only write ghost fields)
        self.locals = dict(locals or {})    # declared types of locals that start as empty literals
        self.let_abstraction = let_abstraction     # False: keep large array entries expanded (specs that mirror the code term by term)
        self.axioms = list((axioms or {}).items())      # mathematical facts assumed inside the body proof (not required of callers); each is listed as an assumption
        self.opaque_nonlinear = opaque_nonlinear      # products / quotients of two symbolic reals become uninterpreted (rmul / rdiv): the proof may only use congruence and the axioms the contract states
        self.raises_when = dict(raises_when or {})    # {ExcName: spec over the LOCALS at the raise}: the exception may only escape from a state satisfying the spec (no completeness claim)
        self.ghost_locals = dict(ghost_locals or {})   # {name: type}: ghost variables of the body (arbitrary initial value; written by ghost hooks only)
        self.deep_wf = deep_wf     # fresh values carry their well-formedness facts (list lengths >= 0) at every nesting depth, not only at the top
        self.instance = instance   # distinguishes several contracts of one function (separate ledger entries)
        self.adapt = adapt     # replay only: concretised arguments (plain data) -> arguments of the real call (e.g. a record to the real class)
        self.exposes = dict(exposes or {})   # callee locals named in `ensures`: existentially quantified (fresh) at call sites


class Registry(dict):
    """target -> contract.  Several contracts of one function that differ in a constant parameter (TConst) are kept as variants:
    a call site uses the one whose constants equal the actual arguments"""

    def __init__(self, *a, **k):
        super().__init__(*a, **k)
        self.variants = {}

    def add(self, c):
        self.variants.setdefault(c.target, []).append(c)
        if c.target not in self:
            self[c.target] = c
        return c


class FunctionReport:
    def __init__(self, contract):
        self.contract = contract
        self.target = contract.target
        self.sha = None
        self.obligations = []
        self.paths = 0
        self.error = None         # Unsupported / internal error text
        self.error_kind = None    # 'unsupported' | 'internal'
        self.trusted_used = []
        self.inlined = []
        self.facts = None
        self.wall = 0.0
        self.outcomes = []


def verify_function(contract, registry, label_prefix="", feas_timeout_ms=250):
    """symbolically execute the real function against its contract; returns a FunctionReport with
    undischarged obligations (solver.py decides them)"""
    rep = FunctionReport(contract)
    t0 = time.time()
    try:
        mod = source.load(contract.module)
        if contract.qual not in mod.functions:
            raise Unsupported(f"function {contract.target} not found in the working tree (contract is stale)")
        fnode = mod.functions[contract.qual]
        rep.sha = mod.sha(contract.qual)
        eng = Engine(registry, feas_timeout_ms=feas_timeout_ms)
        eng.contract = contract
        eng.label = f"{label_prefix}{contract.qual}"
        eng.allowed_raises = [e for e, _ in contract.raises] + list(contract.raises_when)

        def run():
            env = {}
            for p, t in contract.params.items():
                env[p] = eng.fresh(p, t)
            declared = [a.arg for a in fnode.args.posonlyargs + fnode.args.args + fnode.args.kwonlyargs]
            if fnode.args.vararg:
                declared.append(fnode.args.vararg.arg)
            if fnode.args.kwarg:
                declared.append(fnode.args.kwarg.arg)
            for p in contract.params:
                if p not in declared:
                    raise Unsupported(f"contract parameter {p!r} is not a parameter of {contract.target} (stale contract)")
            # parameters with defaults not mentioned by the contract take their default value
            eng.frames.append(Frame(mod, contract.qual, env))
            eng.bind_defaults(fnode, env, mod)
            entry = dict(env)
            eng.entry_env0 = entry
            for name, req in contract.requires:
                eng.assume(eng.spec_eval(req, env, old_env=entry))
            for gname, gtype in contract.ghost_locals.items():
                env[gname] = eng.fresh(f"ghost_{gname}", gtype)
            for name, ax in contract.axioms:
                eng.assume(eng.spec_eval(ax, env, old_env=entry))
            is_gen = source.is_generator(fnode)
            if is_gen:
                from .types import CList as _CL, to_slist as _tsl
                yt = contract.locals.get("__yield__")
                env["__yield__"] = _tsl(_CL(), yt.t) if yt is not None else _CL()
            result, raised = None, None
            try:
                eng.ex_block(fnode.body)
                if is_gen:
                    result = eng.frames[0].env["__yield__"]
            except ReturnEx as r:
                result = eng.frames[0].env["__yield__"] if is_gen else r.value
            except PyRaise as e:
                raised = e
                del eng.frames[1:]
            env = eng.frames[0].env
            if raised is None:
                for name, ens in contract.ensures:
                    eng.oblige("post", name, eng.spec_eval(ens, dict(env, result=result), old_env=entry), fnode)
                for exc, cond in contract.raises:
                    eng.oblige("raises.complete", f"{exc}", b_not(eng.spec_eval(cond, entry, old_env=entry)), fnode,
                               note="a normal return is only allowed when the raise condition is false")
                return ("return", result)
            allowed = [(exc, cond) for exc, cond in contract.raises if exc_isa(raised.cls, exc)]
            when = [(exc, cond) for exc, cond in contract.raises_when.items() if exc_isa(raised.cls, exc)]
            if when and not allowed:
                for exc, cond in when:
                    eng.oblige("raises.when", f"{exc}@{eng.site(raised.node)}", eng.spec_eval(cond, dict(env), old_env=entry), raised.node,
                               note="the exception may only escape from a state that satisfies the stated condition")
                return ("raise", raised.cls)
            if not allowed:
                eng.oblige("safe@" + raised.cls, f"unexpected@{eng.site(raised.node)}", False, raised.node,
                           note="an exception the contract does not allow escapes on this path")
                return ("raise", raised.cls)
            for exc, cond in allowed:
                eng.oblige("raises.sound", f"{exc}@{eng.site(raised.node)}", eng.spec_eval(cond, entry, old_env=entry), raised.node)
            return ("raise", raised.cls)

        from . import ops as _ops
        _ops.OPAQUE_NONLINEAR[0] = bool(contract.opaque_nonlinear)
        try:
            done = eng.explore(run)
        finally:
            _ops.OPAQUE_NONLINEAR[0] = False
        import ast as _ast
        in_source = set()
        for fq in [contract.qual] + [k.split(":")[1] for k in contract.inline_callees if k.split(":")[0] == contract.module]:
            fn_ = mod.functions.get(fq)
            for st in (_ast.walk(fn_) if fn_ is not None else ()):
                if isinstance(st, _ast.stmt):
                    in_source.add("after:" + " ".join(mod.segment(st).split()))
        # an anchor is stale when its statement is gone from the source -- not when no explored path happens to reach it
        stale = [k for k in contract.ghost if k not in eng.ghost_hits and k not in in_source]
        rep.stale_ghost = stale      # anchors that no longer occur in the body: the ghost update is simply not made; obligations decide
        rep.vacuous_calls = sorted(eng.vacuous_calls)
        rep.paths = len(done)
        rep.outcomes = [(d[2]) for d in done]
        rep.obligations = list(eng.obligations.values())
        rep.trusted_used = sorted(eng.trusted_used)
        rep.inlined = sorted(eng.inlined)
        rep.facts = eng.facts
        rep.engine = eng
        rep.completed = done
    except Unsupported as e:
        rep.error, rep.error_kind = str(e), "unsupported"
    except RecursionError as e:
        rep.error, rep.error_kind = f"recursion: {e}", "unsupported"
    except (AttributeError, TypeError, KeyError, IndexError, z3.Z3Exception) as e:
        # a specification helper or a model met a value shape it was not written for (typically on restructured code): the function is
        # outside what this contract can decide -- undecided with the reason attached, never a verdict
        import traceback as _tb
        where = _tb.extract_tb(e.__traceback__)[-1]
        rep.error, rep.error_kind = f"contract not applicable to this code shape ({type(e).__name__}: {e} at {where.filename.split('/')[-1]}:{where.lineno})", "unsupported"
    rep.wall = time.time() - t0
    return rep


def _bind_defaults(self, fnode, env, mod):
    a = fnode.args
    names = [x.arg for x in a.posonlyargs + a.args]
    for i, n in enumerate(names):
        if n in env:
            continue
        di = i - (len(names) - len(a.defaults))
        if di < 0:
            raise Unsupported(f"parameter {n} has neither a contract type nor a default")
        self.frames.append(Frame(mod, "<default>", {}))
        try:
            env[n] = self.ev(a.defaults[di])
        finally:
            self.frames.pop()
    for k, d in zip(a.kwonlyargs, a.kw_defaults):
        if k.arg not in env and d is not None:
            env[k.arg] = self.ev(d)


Engine.bind_defaults = _bind_defaults

import z3 as _z3
# z3 5.1's Diophantine-equation handler (lp.dio) was seen to run for hours inside one query, ignoring the solver timeout;
# it is an optional heuristic of the linear-integer procedure and is switched off for every query of this package
_z3.set_param("lp.dio", False)

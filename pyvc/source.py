"""Acquisition of the verified text: the real source files of /repo, re-read on every run."""
import ast
import hashlib
import os

REPO = os.environ.get("PYVC_REPO", "/repo")


class Module:
    def __init__(self, dotted):
        self.dotted = dotted
        self.path = os.path.join(REPO, *dotted.split(".")) + ".py"
        if not os.path.exists(self.path):
            alt = os.path.join(REPO, *dotted.split("."), "__init__.py")
            if os.path.exists(alt):
                self.path = alt
        with open(self.path, "r", encoding="utf-8") as fh:
            self.text = fh.read()
        self.tree = ast.parse(self.text, filename=self.path)
        self.functions = {}      # "f" or "Class.f" -> FunctionDef
        self.classes = {}        # "Class" -> ClassDef
        self.imports = {}        # local name -> dotted target
        self.assigns = {}        # module level name -> value expr (last simple assignment)
        self._index()

    def _index(self):
        pkg = self.dotted.rsplit(".", 1)[0] if "." in self.dotted else ""
        for node in self.tree.body:
            if isinstance(node, ast.FunctionDef):
                self.functions[node.name] = node
            elif isinstance(node, ast.ClassDef):
                self.classes[node.name] = node
                for sub in node.body:
                    if isinstance(sub, ast.FunctionDef):
                        self.functions[f"{node.name}.{sub.name}"] = sub
            elif isinstance(node, ast.Import):
                for a in node.names:
                    self.imports[a.asname or a.name.split(".")[0]] = a.name if a.asname else a.name.split(".")[0]
            elif isinstance(node, ast.ImportFrom):
                base = node.module or ""
                if node.level:
                    parts = self.dotted.split(".")
                    # a module file: level 1 == its package
                    anchor = parts[:len(parts) - node.level]
                    base = ".".join(anchor + ([node.module] if node.module else []))
                for a in node.names:
                    self.imports[a.asname or a.name] = f"{base}.{a.name}"
            elif isinstance(node, ast.Assign) and len(node.targets) == 1 and isinstance(node.targets[0], ast.Name):
                self.assigns[node.targets[0].id] = node.value

    def segment(self, node):
        return ast.get_source_segment(self.text, node) or ""

    def sha(self, qual):
        return hashlib.sha256(self.segment(self.functions[qual]).encode()).hexdigest()


_CACHE = {}


def load(dotted):
    if dotted not in _CACHE:
        _CACHE[dotted] = Module(dotted)
    return _CACHE[dotted]


def reset():
    _CACHE.clear()


def is_repo_module(dotted):
    p = os.path.join(REPO, *dotted.split("."))
    return os.path.exists(p + ".py") or os.path.exists(os.path.join(p, "__init__.py"))


def is_generator(fnode):
    """does the function body contain a yield (not counting nested functions / lambdas)?"""
    stack = list(fnode.body)
    while stack:
        n = stack.pop()
        if isinstance(n, (ast.Yield, ast.YieldFrom)):
            return True
        if isinstance(n, (ast.FunctionDef, ast.AsyncFunctionDef, ast.Lambda, ast.ClassDef)):
            continue
        stack.extend(ast.iter_child_nodes(n))
    return False

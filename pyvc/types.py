"""Type descriptors and symbolic value representations for pyvc.

Every value of a descriptor type T is a finite tuple of z3 terms ("flat" form) wrapped in a
small Python structure.  Scalars are raw z3 expressions (or Python constants).  Mutation is
modelled by functional update + write-back along the access path (see engine.py); no value in
here is ever mutated in place.
"""
import z3

# --------------------------------------------------------------------------------------------
# sorts
NodeSort = z3.DeclareSort("Node")      # residue / graph node keys: only equality is available
ObjSort = z3.DeclareSort("Obj")        # opaque objects


class Unsupported(Exception):
    """construct outside the verified subset; never a verdict"""


class VerifierError(Exception):
    """internal defect of the checker (exit 3)"""


def is_sym(x):
    return isinstance(x, z3.ExprRef)


def R(x):
    """coerce a scalar to a z3 Real term"""
    if isinstance(x, bool):
        raise Unsupported("bool used as real")
    if isinstance(x, int):
        return z3.RealVal(x)
    if isinstance(x, float):
        if x != x or x in (float("inf"), float("-inf")):
            raise Unsupported("non-finite float constant")
        return z3.RealVal(repr(x))
    if isinstance(x, z3.ArithRef):
        return z3.ToReal(x) if x.is_int() else x
    if type(x).__name__ == "F" and hasattr(x, "q"):          # ops.F: a concrete float held exactly
        return z3.Q(x.q.numerator, x.q.denominator)
    raise Unsupported(f"cannot coerce {type(x).__name__} to Real")


def I(x):
    if isinstance(x, bool):
        return z3.IntVal(int(x))
    if isinstance(x, int):
        return z3.IntVal(x)
    if isinstance(x, z3.ArithRef) and x.is_int():
        return x
    raise Unsupported(f"cannot coerce {x!r} to Int")


def B(x):
    if isinstance(x, bool):
        return z3.BoolVal(x)
    if isinstance(x, z3.BoolRef):
        return x
    raise Unsupported(f"cannot coerce {x!r} to Bool")


def S(x):
    if isinstance(x, str):
        return z3.StringVal(x)
    if isinstance(x, z3.SeqRef):
        return x
    raise Unsupported(f"cannot coerce {x!r} to Str")


# --------------------------------------------------------------------------------------------
# structured values

class NArr:
    """numpy array of concrete shape whose entries are scalars (z3 Real/Bool or Python numbers)"""
    __slots__ = ("shape", "data")

    def __init__(self, shape, data):
        self.shape = tuple(shape)
        self.data = list(data)
        n = 1
        for s in self.shape:
            n *= s
        if n != len(self.data):
            raise VerifierError(f"NArr shape {shape} vs {len(self.data)} entries")

    def __repr__(self):
        return f"NArr{self.shape}{self.data}"

    def __iter__(self):
        return iter(self.rows())

    def __len__(self):
        return self.shape[0]

    def rows(self):
        if len(self.shape) == 1:
            return list(self.data)
        stride = len(self.data) // self.shape[0] if self.shape[0] else 0
        return [NArr(self.shape[1:], self.data[i * stride:(i + 1) * stride]) for i in range(self.shape[0])]


class SMat:
    """float matrix with a concrete number of rows and a symbolic number of columns;
    comps[r] is a z3 array Int -> Real holding row r"""
    __slots__ = ("rows", "ncols", "comps")

    def __init__(self, rows, ncols, comps):
        self.rows, self.ncols, self.comps = rows, ncols, list(comps)

    def __repr__(self):
        return f"SMat({self.rows} x {self.ncols})"


class SList:
    """list of symbolic length: elements of descriptor type `t`, length term `n`,
    one z3 array Int->sort per flattened component of t"""
    __slots__ = ("t", "n", "comps", "items")

    def __init__(self, t, n, comps, items=None):
        self.t, self.n, self.comps = t, n, list(comps)
        self.items = items          # python list of the elements when the list was built from a concrete-length literal

    def __repr__(self):
        return f"SList<{self.t}>(n={self.n})"


class SDict:
    """dict with symbolic domain: key descriptor k (single key sort), value descriptor v"""
    __slots__ = ("k", "v", "dom", "comps")

    def __init__(self, k, v, dom, comps):
        self.k, self.v, self.dom, self.comps = k, v, dom, list(comps)

    def __repr__(self):
        return f"SDict<{self.k},{self.v}>"


class SDefaultDict(SDict):
    """collections.defaultdict with a symbolic key set, as a TOTAL map: a key that was never stored reads as the default value
    (the component arrays start as constant arrays of the default).  Only subscripting is supported; anything that depends on
    which keys exist (len, iteration, `in`) is rejected as unsupported."""
    __slots__ = ()


class SODict(SDict):
    """insertion-ordered dict (python dicts and networkx node tables keep insertion order): besides the key set and the values,
    `order` lists the keys in insertion order and `pos` is its inverse (position of a key).  Representation invariant
    (TODict.rep): order enumerates the keys exactly once and pos inverts it.  Used where code depends on the iteration order;
    a plain SDict leaves the order arbitrary (sound for order-independent code)."""
    __slots__ = ("order", "pos")

    def __init__(self, k, v, dom, comps, order, pos):
        super().__init__(k, v, dom, comps)
        self.order, self.pos = order, pos

    def __repr__(self):
        return f"SODict<{self.k},{self.v}>"


def sdict_store(d, kt, fl):
    """d[key] = value  (fl: flattened value): an ordered dict appends a key that is new"""
    dom = z3.Store(d.dom, kt, True)
    comps = [z3.Store(c, kt, f) for c, f in zip(d.comps, fl)]
    if isinstance(d, SODict):
        had = z3.Select(d.dom, kt)
        n = d.order.n
        order = SList(d.order.t, z3.If(had, n, n + 1), [z3.If(had, d.order.comps[0], z3.Store(d.order.comps[0], n, kt))])
        pos = z3.If(had, d.pos, z3.Store(d.pos, kt, n))
        return SODict(d.k, d.v, dom, comps, order, pos)
    return type(d)(d.k, d.v, dom, comps)


class SSet:
    __slots__ = ("k", "dom")

    def __init__(self, k, dom):
        self.k, self.dom = k, dom


class Rec:
    """record / object: named fields.  `cls` is a label used for method resolution."""
    __slots__ = ("cls", "fields")

    def __init__(self, cls, fields):
        self.cls, self.fields = cls, dict(fields)

    def __repr__(self):
        return f"Rec<{self.cls}>({list(self.fields)})"

    def with_field(self, name, val):
        f = dict(self.fields)
        f[name] = val
        return Rec(self.cls, f)


class Opt:
    """optional value: `none` Bool term (or Python bool), payload"""
    __slots__ = ("none", "val")

    def __init__(self, none, val):
        self.none, self.val = none, val


class CList(list):
    """python list of concrete length (elements may be symbolic)"""


class FuncRef:
    """reference to a function of the repository (module path + qualified name) or prelude"""
    __slots__ = ("module", "qual", "bound")

    def __init__(self, module, qual, bound=None):
        self.module, self.qual, self.bound = module, qual, bound

    def __repr__(self):
        return f"FuncRef({self.module}:{self.qual})"

    def key(self):
        return f"{self.module}:{self.qual}"


class ModRef:
    """reference to an imported module / dotted name not yet resolved"""
    __slots__ = ("dotted",)

    def __init__(self, dotted):
        self.dotted = dotted

    def __repr__(self):
        return f"ModRef({self.dotted})"


# --------------------------------------------------------------------------------------------
# descriptors

class T:
    def sorts(self):
        raise NotImplementedError

    def flat(self, v):
        raise NotImplementedError

    def unflat(self, terms):
        raise NotImplementedError

    def fresh(self, name):
        return self.unflat([z3.Const(f"{name}#{i}" if i else name, s) for i, s in enumerate(self.sorts())])

    def eq(self, a, b):
        fa, fb = self.flat(a), self.flat(b)
        return z3.And(*[x == y for x, y in zip(fa, fb)]) if fa else z3.BoolVal(True)

    def wf(self, v):
        """well-formedness facts of a fresh value (e.g. list length >= 0)"""
        return []

    def __repr__(self):
        return type(self).__name__


class _Scalar(T):
    sort = None
    coerce = staticmethod(lambda x: x)

    def sorts(self):
        return [self.sort]

    def flat(self, v):
        if isinstance(v, Opt):
            v = v.val
        return [self.coerce(v)]

    def unflat(self, terms):
        return terms[0]


class TIntT(_Scalar):
    sort = z3.IntSort()
    coerce = staticmethod(I)


class TRealT(_Scalar):
    sort = z3.RealSort()
    coerce = staticmethod(R)


class TBoolT(_Scalar):
    sort = z3.BoolSort()
    coerce = staticmethod(B)


class TStrT(_Scalar):
    sort = z3.StringSort()
    coerce = staticmethod(S)


class TNodeT(_Scalar):
    sort = NodeSort


class TObjT(_Scalar):
    sort = ObjSort


TInt, TReal, TBool, TStr, TNode, TObj = TIntT(), TRealT(), TBoolT(), TStrT(), TNodeT(), TObjT()


class TConst(T):
    """a parameter fixed to a concrete python value (the contract covers this instance of the function only)"""

    def __init__(self, value):
        self.value = value

    def sorts(self):
        return []

    def flat(self, v):
        return []

    def unflat(self, terms):
        return self.value

    def fresh(self, name):
        return self.value


class TTuple(T):
    def __init__(self, *ts):
        self.ts = list(ts)

    def __repr__(self):
        return f"TTuple{self.ts}"

    def sorts(self):
        return [s for t in self.ts for s in t.sorts()]

    def flat(self, v):
        if isinstance(v, Opt):
            v = v.val
        if not isinstance(v, (tuple, list)) or len(v) != len(self.ts):
            raise Unsupported(f"expected {len(self.ts)}-tuple, got {v!r}")
        return [x for t, e in zip(self.ts, v) for x in t.flat(e)]

    def unflat(self, terms):
        out, i = [], 0
        for t in self.ts:
            k = len(t.sorts())
            out.append(t.unflat(terms[i:i + k]))
            i += k
        return tuple(out)

    def wf(self, v):
        return [f for t, e in zip(self.ts, v) for f in t.wf(e)]


class TFSet(T):
    """frozenset with exactly n members of type t (members may coincide): n components; equality is set equality"""

    def __init__(self, t, n):
        self.t, self.n = t, n

    def __repr__(self):
        return f"TFSet[{self.t},{self.n}]"

    def sorts(self):
        return [s for _ in range(self.n) for s in self.t.sorts()]

    def flat(self, v):
        if len(v) != self.n:
            raise Unsupported(f"frozenset of {len(v)} members where {self.n} are expected")
        return [x for e in v for x in self.t.flat(e)]

    def unflat(self, terms):
        from .prelude import FSet
        k = len(self.t.sorts())
        return FSet(tuple(self.t.unflat(terms[i * k:(i + 1) * k]) for i in range(self.n)))

    def eq(self, a, b):
        from .ops import values_equal, B
        return B(values_equal(a, b))


_UPAIR = {}


def upair_fn(t):
    """the unordered pair {a, b} of two values of scalar type t, as a term of an uninterpreted sort with the axioms
    UP(a, b) = UP(b, a)   and   UP(a, b) = UP(c, d) -> (a = c and b = d) or (a = d and b = c)"""
    srt = t.sorts()[0]
    key = str(srt)
    if key not in _UPAIR:
        ps = z3.DeclareSort(f"UPair_{key}")
        up = z3.Function(f"upair_{key}", srt, srt, ps)
        a, b, c, d = [z3.Const(f"_up{n}", srt) for n in "abcd"]
        axioms = [z3.ForAll([a, b], up(a, b) == up(b, a)),
                  z3.ForAll([a, b, c, d], z3.Implies(up(a, b) == up(c, d), z3.Or(z3.And(a == c, b == d), z3.And(a == d, b == c))))]
        _UPAIR[key] = (ps, up, axioms)
    return _UPAIR[key]


class TUPair(T):
    """frozenset of (at most) two values used as a dictionary key: one component of an uninterpreted 'unordered pair' sort"""

    def __init__(self, t):
        self.t = t

    def __repr__(self):
        return f"TUPair[{self.t}]"

    def sorts(self):
        return [upair_fn(self.t)[0]]

    def flat(self, v):
        if z3.is_expr(v):
            return [v]
        items = list(v)
        if len(items) == 1:
            items = items * 2
        if len(items) != 2:
            raise Unsupported("unordered pair with more than two members")
        return [upair_fn(self.t)[1](self.t.flat(items[0])[0], self.t.flat(items[1])[0])]

    def unflat(self, terms):
        return terms[0]


class TVec(T):
    """numpy float vector / matrix of concrete shape"""

    def __init__(self, *shape):
        self.shape = tuple(shape)
        n = 1
        for s in shape:
            n *= s
        self.n = n

    def __repr__(self):
        return f"TVec{self.shape}"

    def sorts(self):
        return [z3.RealSort()] * self.n

    def flat(self, v):
        if not isinstance(v, NArr) or v.shape != self.shape:
            raise Unsupported(f"expected array of shape {self.shape}, got {v!r}")
        return [R(x) for x in v.data]

    def unflat(self, terms):
        return NArr(self.shape, terms)


class TMat(T):
    def __init__(self, rows):
        self.rows = rows

    def __repr__(self):
        return f"TMat({self.rows},n)"

    def sorts(self):
        return [z3.IntSort()] + [z3.ArraySort(z3.IntSort(), z3.RealSort())] * self.rows

    def flat(self, v):
        if not isinstance(v, SMat) or v.rows != self.rows:
            raise Unsupported(f"expected {self.rows}-row matrix, got {v!r}")
        return [I(v.ncols)] + list(v.comps)

    def unflat(self, terms):
        return SMat(self.rows, terms[0], terms[1:])

    def wf(self, v):
        return [v.ncols >= 0]


class TList(T):
    def __init__(self, t):
        self.t = t

    def __repr__(self):
        return f"TList[{self.t}]"

    def sorts(self):
        return [z3.IntSort()] + [z3.ArraySort(z3.IntSort(), s) for s in self.t.sorts()]

    def flat(self, v):
        if isinstance(v, Opt):
            v = v.val           # an optional list used where a list is expected (the None case is excluded by the path condition)
        v = to_slist(v, self.t)
        return [v.n] + list(v.comps)

    def unflat(self, terms):
        return SList(self.t, terms[0], terms[1:])

    def wf(self, v):
        return [v.n >= 0]

    def eq(self, a, b):
        a, b = to_slist(a, self.t), to_slist(b, self.t)
        i = z3.FreshConst(z3.IntSort(), "i")
        body = self.t.eq(slist_get(a, i), slist_get(b, i))
        return z3.And(a.n == b.n, z3.ForAll([i], z3.Implies(z3.And(0 <= i, i < a.n), body)))


def key_sort(k):
    ss = k.sorts()
    if len(ss) == 1:
        return ss[0]
    name = "Key_" + "_".join(str(s) for s in ss)
    ts, _mk, _acc = z3.TupleSort(name, ss)
    return ts


_TUPLE_CACHE = {}


def key_term(k, v):
    fl = k.flat(v)
    if len(fl) == 1:
        return fl[0]
    ss = k.sorts()
    name = "Key_" + "_".join(str(s) for s in ss)
    if name not in _TUPLE_CACHE:
        _TUPLE_CACHE[name] = z3.TupleSort(name, ss)
    _ts, mk, _acc = _TUPLE_CACHE[name]
    return mk(*fl)


def key_sort_of(k):
    ss = k.sorts()
    if len(ss) == 1:
        return ss[0]
    name = "Key_" + "_".join(str(s) for s in ss)
    if name not in _TUPLE_CACHE:
        _TUPLE_CACHE[name] = z3.TupleSort(name, ss)
    return _TUPLE_CACHE[name][0]


def key_untuple(k, term):
    ss = k.sorts()
    if len(ss) == 1:
        return k.unflat([term])
    name = "Key_" + "_".join(str(s) for s in ss)
    _ts, _mk, acc = _TUPLE_CACHE[name]
    return k.unflat([a(term) for a in acc])


class TDict(T):
    def __init__(self, k, v):
        self.k, self.v = k, v

    def __repr__(self):
        return f"TDict[{self.k},{self.v}]"

    def sorts(self):
        ks = key_sort_of(self.k)
        return [z3.ArraySort(ks, z3.BoolSort())] + [z3.ArraySort(ks, s) for s in self.v.sorts()]

    def flat(self, v):
        if not isinstance(v, SDict):
            raise Unsupported(f"expected dict, got {v!r}")
        return [v.dom] + list(v.comps)

    def unflat(self, terms):
        return SDict(self.k, self.v, terms[0], terms[1:])

    def eq(self, a, b):
        ks = key_sort_of(self.k)
        x = z3.FreshConst(ks, "k")
        va = self.v.unflat([c[x] for c in a.comps])
        vb = self.v.unflat([c[x] for c in b.comps])
        return z3.ForAll([x], z3.And(a.dom[x] == b.dom[x], z3.Implies(a.dom[x], self.v.eq(va, vb))))


class TODict(TDict):
    """insertion-ordered dict, see SODict"""

    def __repr__(self):
        return f"TODict[{self.k},{self.v}]"

    def sorts(self):
        ks = key_sort_of(self.k)
        return super().sorts() + [z3.IntSort(), z3.ArraySort(z3.IntSort(), ks), z3.ArraySort(ks, z3.IntSort())]

    def flat(self, v):
        if not isinstance(v, SODict):
            raise Unsupported(f"expected an ordered dict, got {v!r}")
        return [v.dom] + list(v.comps) + [v.order.n, v.order.comps[0], v.pos]

    def unflat(self, terms):
        return SODict(self.k, self.v, terms[0], terms[1:-3], SList(self.k, terms[-3], [terms[-2]]), terms[-1])

    @staticmethod
    def rep(v):
        """representation invariant: order enumerates the key set exactly once, pos is its inverse"""
        ks = key_sort_of(v.k)
        i, x = z3.FreshConst(z3.IntSort(), "oi"), z3.FreshConst(ks, "ox")
        arr, n = v.order.comps[0], v.order.n
        return [n >= 0,
                z3.ForAll([i], z3.Implies(z3.And(0 <= i, i < n), z3.And(z3.Select(v.dom, arr[i]), v.pos[arr[i]] == i))),
                z3.ForAll([x], z3.Implies(z3.Select(v.dom, x), z3.And(0 <= v.pos[x], v.pos[x] < n, arr[v.pos[x]] == x)))]

    def wf(self, v):
        return self.rep(v)

    def eq(self, a, b):
        i = z3.FreshConst(z3.IntSort(), "i")
        return z3.And(super().eq(a, b), a.order.n == b.order.n,
                      z3.ForAll([i], z3.Implies(z3.And(0 <= i, i < a.order.n), a.order.comps[0][i] == b.order.comps[0][i])))


class TDefaultDict(TDict):
    def unflat(self, terms):
        return SDefaultDict(self.k, self.v, terms[0], terms[1:])

    def wf(self, v):
        ks = key_sort_of(self.k)
        x = z3.FreshConst(ks, "k")
        facts = self.v.wf(self.v.unflat([c[x] for c in v.comps]))
        return [z3.ForAll([x], f) for f in facts]


def TGraph(attrs, key=None, cls="nx.Graph", ordered=False, **more):
    """networkx.Graph (and subclasses) as a record: node table and a symmetric adjacency relation over node pairs
    (ordered: the node table keeps the insertion order of the nodes)"""
    key = key or TNode
    return TRec(cls, nodes=(TODict if ordered else TDict)(key, attrs), adj=TSet(TTuple(key, key)), **more)


class TSet(T):
    def __init__(self, k):
        self.k = k

    def sorts(self):
        return [z3.ArraySort(key_sort_of(self.k), z3.BoolSort())]

    def flat(self, v):
        return [v.dom]

    def unflat(self, terms):
        return SSet(self.k, terms[0])


class TRec(T):
    def __init__(self, cls, **fields):
        self.cls, self.fields = cls, dict(fields)

    def __repr__(self):
        return f"TRec<{self.cls}>"

    def sorts(self):
        return [s for t in self.fields.values() for s in t.sorts()]

    def flat(self, v):
        if isinstance(v, dict) and set(v) == set(self.fields):
            v = Rec(self.cls, v)
        if not isinstance(v, Rec):
            raise Unsupported(f"expected record {self.cls}, got {v!r}")
        return [x for f, t in self.fields.items() for x in t.flat(v.fields[f])]

    def unflat(self, terms):
        out, i = {}, 0
        for f, t in self.fields.items():
            k = len(t.sorts())
            out[f] = t.unflat(terms[i:i + k])
            i += k
        return Rec(self.cls, out)

    def fresh(self, name):
        return Rec(self.cls, {f: t.fresh(f"{name}.{f}") for f, t in self.fields.items()})

    def wf(self, v):
        return [x for f, t in self.fields.items() for x in t.wf(v.fields[f])]

    def eq(self, a, b):
        return z3.And(*[t.eq(a.fields[f], b.fields[f]) for f, t in self.fields.items()])


class TOpt(T):
    def __init__(self, t):
        self.t = t

    def __repr__(self):
        return f"TOpt[{self.t}]"

    def sorts(self):
        return [z3.BoolSort()] + self.t.sorts()

    def flat(self, v):
        if v is None or type(v).__name__ == "Undef":
            return [z3.BoolVal(True)] + [z3.FreshConst(s, "junk") for s in self.t.sorts()]
        if isinstance(v, Opt):
            return [B(v.none)] + self.t.flat(v.val)
        return [z3.BoolVal(False)] + self.t.flat(v)

    def unflat(self, terms):
        return Opt(terms[0], self.t.unflat(terms[1:]))

    def wf(self, v):
        return []

    def eq(self, a, b):
        fa, fb = self.flat(a), self.flat(b)
        return z3.And(fa[0] == fb[0], z3.Implies(z3.Not(fa[0]), z3.And(*[x == y for x, y in zip(fa[1:], fb[1:])])))


def deep_wf(t, v):
    """well-formedness of a fresh value at every depth: the lengths of lists nested in lists, dict values, optional values and
    record fields are non-negative too (T.wf only covers the top level and records/tuples)"""
    n = type(t).__name__
    if n == "TList":
        out = [v.n >= 0]
        i = z3.FreshConst(z3.IntSort(), "wi")
        inner = deep_wf(t.t, slist_get(v, i))
        return out + [z3.ForAll([i], z3.Implies(z3.And(0 <= i, i < v.n), f)) for f in inner]
    if n in ("TDict", "TDefaultDict"):
        x = z3.FreshConst(key_sort_of(t.k), "wk")
        inner = deep_wf(t.v, t.v.unflat([c[x] for c in v.comps]))
        return [z3.ForAll([x], f) for f in inner]
    if n == "TOpt":
        return deep_wf(t.t, v.val)
    if n == "TRec":
        return [f for fn, ft in t.fields.items() for f in deep_wf(ft, v.fields[fn])]
    if n == "TTuple":
        return [f for tt, e in zip(t.ts, v) for f in deep_wf(tt, e)]
    return list(t.wf(v))


# --------------------------------------------------------------------------------------------
# SList helpers

def _select(c, i):
    """c[i]; a lambda component (ranges, enumerate positions) is applied at once instead of leaving a select-of-lambda term"""
    if z3.is_quantifier(c) and c.is_lambda() and c.num_vars() == 1:
        ix = i if is_sym(i) else z3.IntVal(i)
        if ix.sort() == c.var_sort(0):
            return z3.substitute_vars(c.body(), ix)
    return c[i]


def slist_get(xs, i):
    return xs.t.unflat([_select(c, i) for c in xs.comps])


def slist_set(xs, i, v):
    fl = xs.t.flat(v)
    return SList(xs.t, xs.n, [z3.Store(c, i, x) for c, x in zip(xs.comps, fl)])


def slist_append(xs, v):
    fl = xs.t.flat(v)
    return SList(xs.t, xs.n + 1, [z3.Store(c, xs.n, x) for c, x in zip(xs.comps, fl)])


def slist_slice(xs, lo, hi):
    """xs[lo:hi] with already-normalised bounds 0 <= lo <= hi' ; length max(hi-lo,0)"""
    i = z3.Int("_sl")
    n = z3.If(hi - lo > 0, hi - lo, 0)
    return SList(xs.t, n, [z3.Lambda([i], c[i + lo]) for c in xs.comps])


def slist_concat(a, b):
    i = z3.Int("_cc")
    return SList(a.t, a.n + b.n, [z3.Lambda([i], z3.If(i < a.n, ca[i], cb[i - a.n])) for ca, cb in zip(a.comps, b.comps)])


def to_slist(v, t):
    """view a concrete-length list as SList"""
    if isinstance(v, SList):
        return v
    if isinstance(v, (list, tuple)):
        comps = [z3.K(z3.IntSort(), z3.FreshConst(s, "dflt")) for s in t.sorts()]
        out = SList(t, z3.IntVal(0), comps)
        for e in v:
            out = slist_append(out, e)
        return SList(t, z3.IntVal(len(v)), out.comps, items=list(v))
    raise Unsupported(f"expected list, got {v!r}")


def norm_index(i, n):
    """python index normalisation for a possibly negative index (no bounds check)"""
    if isinstance(i, int) and not is_sym(n):
        return i + n if i < 0 else i
    if isinstance(i, int):
        return I(i) + n if i < 0 else I(i)
    return z3.If(i < 0, i + n, i)


def norm_slice_bound(b, n, default):
    """CPython slice.indices for step 1: clamp to [0, n]"""
    if b is None:
        return default
    b = I(b)
    b = z3.If(b < 0, b + n, b)
    return z3.If(b < 0, 0, z3.If(b > n, n, b))

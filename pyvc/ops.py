"""Operator semantics shared by the executable-code evaluator and the spec evaluator.

Numbers: Python ints stay ints; float literals become `F` (exact rational tagged as float,
assumption A-REAL); symbolic numbers are z3 Int / Real terms.
"""
from fractions import Fraction
import z3
from .types import (NArr, SList, SDict, SSet, Rec, Opt, CList, Unsupported, VerifierError, is_sym, R, I, B, S,
                    slist_get, norm_index, key_term)


class F:
    """concrete float, held exactly"""
    __slots__ = ("q",)

    def __init__(self, q):
        self.q = Fraction(q)

    def __repr__(self):
        return f"F({self.q})"

    def __eq__(self, o):
        return isinstance(o, (F, int)) and self.q == (o.q if isinstance(o, F) else o)

    def __hash__(self):
        return hash(self.q)


# uninterpreted real functions (axioms are instantiated where the terms are created)
SQRT = z3.Function("sqrt", z3.RealSort(), z3.RealSort())
ROOT6 = z3.Function("root6", z3.RealSort(), z3.RealSort())
ROOT3 = z3.Function("root3", z3.RealSort(), z3.RealSort())
FRAC = z3.Function("frac", z3.RealSort(), z3.RealSort())
SIN = z3.Function("sin", z3.RealSort(), z3.RealSort())
COS = z3.Function("cos", z3.RealSort(), z3.RealSort())
ARCCOS = z3.Function("arccos", z3.RealSort(), z3.RealSort())
EXP = z3.Function("exp", z3.RealSort(), z3.RealSort())


from .types import NodeSort as _NodeSort
NODE_TRUTHY = z3.Function("node_truthy", _NodeSort, z3.BoolSort())


INTERNED = {}       # python string -> constant of the Node sort ("names as atoms")


def intern_name(s):
    """a python string that is compared with a value of the opaque Node sort (a name that is only ever compared) is represented by a
    constant of that sort; different strings are different constants (the engine adds the distinctness fact to every query)"""
    c = INTERNED.get(s)
    if c is None:
        c = INTERNED[s] = z3.Const("name:" + s, _NodeSort)
    return c


def interned_distinct():
    cs = list(INTERNED.values())
    return [z3.Distinct(*cs)] if len(cs) > 1 else []


class Facts:
    """side facts (definitional axioms of uninterpreted terms) accumulated during evaluation"""

    def __init__(self):
        self.items = []
        self._seen = set()
        self.frac_terms = []

    def add(self, f):
        k = f.get_id() if hasattr(f, "get_id") else id(f)
        if k not in self._seen:
            self._seen.add(k)
            self.items.append(f)


def is_num(x):
    return (isinstance(x, (int, F)) and not isinstance(x, bool)) or isinstance(x, z3.ArithRef)


def is_float(x):
    return isinstance(x, F) or (isinstance(x, z3.ArithRef) and x.is_real())


def is_concrete_num(x):
    return isinstance(x, (int, F)) and not isinstance(x, bool)


def q(x):
    return x.q if isinstance(x, F) else Fraction(x)


def term(x):
    """python scalar -> z3 term (keeps z3 terms)"""
    if is_sym(x):
        return x
    if isinstance(x, bool):
        return z3.BoolVal(x)
    if isinstance(x, int):
        return z3.IntVal(x)
    if isinstance(x, F):
        return z3.RealVal(str(x.q))
    if isinstance(x, str):
        return z3.StringVal(x)
    raise Unsupported(f"no term for {x!r}")


def real(x):
    if isinstance(x, F):
        return z3.RealVal(str(x.q))
    return R(x)


def sqrt_term(x, facts):
    x = real(x)
    s = SQRT(x)
    facts.add(z3.Implies(x >= 0, z3.And(s >= 0, s * s == x)))
    return s


def root6_term(x, facts):
    x = real(x)
    s = ROOT6(x)
    facts.add(z3.Implies(x >= 0, z3.And(s >= 0, s * s * s * s * s * s == x)))
    return s


def frac_term(u, facts):
    """fractional part u - floor(u), uninterpreted + lemma schemas (range now, others in solver.py)"""
    u = z3.simplify(real(u))
    t = FRAC(u)
    facts.add(z3.And(t >= 0, t < 1))
    facts.frac_terms.append(u)
    return t


def real_mod(a, m, facts, guard=None):
    """python float a % m for m > 0:  m * frac(a / m)"""
    a, m = real(a), real(m)
    return m * frac_term(a / m, facts)


OPAQUE_NONLINEAR = [False]
RMUL = z3.Function("rmul", z3.RealSort(), z3.RealSort(), z3.RealSort())
RDIV = z3.Function("rdiv", z3.RealSort(), z3.RealSort(), z3.RealSort())


def arith(op, a, b, facts):
    """binary arithmetic on scalars"""
    if isinstance(a, bool):
        a = int(a)
    if isinstance(b, bool):
        b = int(b)
    if is_concrete_num(a) and is_concrete_num(b):
        fl = isinstance(a, F) or isinstance(b, F)
        qa, qb = q(a), q(b)
        if op == "+":
            r = qa + qb
        elif op == "-":
            r = qa - qb
        elif op == "*":
            r = qa * qb
        elif op == "/":
            if qb == 0:
                raise ZeroDivisionError
            return F(qa / qb)
        elif op == "//":
            if qb == 0:
                raise ZeroDivisionError
            r = Fraction(qa // qb)
        elif op == "%":
            if qb == 0:
                raise ZeroDivisionError
            r = qa - qb * (qa // qb)
        elif op == "**":
            if qb.denominator == 1 and (qb >= 0 or qa != 0):
                r = qa ** int(qb)
                fl = fl or qb < 0
            elif qa >= 0 and qb == Fraction(1, 2):
                return sqrt_concrete(qa, facts)
            else:
                return power(a, b, facts)
        else:
            raise Unsupported(f"operator {op}")
        return F(r) if fl else int(r)
    if op == "**":
        return power(a, b, facts)
    fl = is_float(a) or is_float(b) or op == "/"
    if fl:
        x, y = real(a), real(b)
        if op == "+":
            return x + y
        if op == "-":
            return x - y
        if OPAQUE_NONLINEAR[0] and op in ("*", "/") and not (z3.is_rational_value(z3.simplify(x)) or z3.is_rational_value(z3.simplify(y))):
            # products / quotients of two symbolic reals as uninterpreted functions (sound weakening: only congruence is known; the
            # contract states the arithmetic facts it needs as axioms).  Keeps the VC out of nonlinear arithmetic.
            return (RMUL if op == "*" else RDIV)(x, y)
        if op == "*":
            return x * y
        if op == "/":
            return x / y
        if op == "%":
            return real_mod(x, y, facts)
        if op == "//":
            return (x - real_mod(x, y, facts)) / y
        raise Unsupported(f"operator {op} on reals")
    x, y = I(a), I(b)
    if op == "+":
        return x + y
    if op == "-":
        return x - y
    if op == "*":
        return x * y
    if op == "//":
        if isinstance(b, int) and b > 0:
            return x / y          # z3 integer division == floor for positive divisor
        return z3.If(y > 0, x / y, (-x) / (-y))
    if op == "%":
        if isinstance(b, int) and b > 0:
            return x % y
        return z3.If(y > 0, x % y, -((-x) % (-y)))
    raise Unsupported(f"operator {op} on ints")


def sqrt_concrete(qa, facts):
    from math import isqrt
    n, d = qa.numerator, qa.denominator
    rn, rd = isqrt(n), isqrt(d)
    if rn * rn == n and rd * rd == d:
        return F(Fraction(rn, rd))
    return sqrt_term(F(qa), facts)


def power(a, b, facts):
    if is_concrete_num(b):
        e = q(b)
        if e.denominator == 1 and 0 <= e <= 16:
            r = real(a) if is_float(a) or isinstance(b, F) else term(a)
            out = None
            for _ in range(int(e)):
                out = r if out is None else out * r
            if out is None:
                return F(1) if is_float(a) or isinstance(b, F) else 1
            return out
        if e == Fraction(1, 2):
            return sqrt_term(a, facts)
        if e == Fraction(1, 6):
            return root6_term(a, facts)
        if e == Fraction(1, 3):
            x = real(a)
            r = ROOT3(x)
            facts.add(z3.And(r * r * r == x, z3.Implies(x >= 0, r >= 0)))
            return r
    raise Unsupported(f"power with exponent {b!r}")


def ew(op, a, b, facts):
    """elementwise / broadcasting arithmetic including NArr"""
    if isinstance(a, NArr) or isinstance(b, NArr):
        if isinstance(a, NArr) and isinstance(b, NArr):
            if a.shape == b.shape:
                return NArr(a.shape, [arith(op, x, y, facts) for x, y in zip(a.data, b.data)])
            # broadcast (r,c) with (c,)
            if len(a.shape) == 2 and len(b.shape) == 1 and a.shape[1] == b.shape[0]:
                c = a.shape[1]
                return NArr(a.shape, [arith(op, x, b.data[i % c], facts) for i, x in enumerate(a.data)])
            if len(b.shape) == 2 and len(a.shape) == 1 and b.shape[1] == a.shape[0]:
                c = b.shape[1]
                return NArr(b.shape, [arith(op, a.data[i % c], y, facts) for i, y in enumerate(b.data)])
            raise Unsupported(f"broadcast {a.shape} {b.shape}")
        if isinstance(a, NArr):
            if not is_num(b):
                raise Unsupported(f"array op with {b!r}")
            return NArr(a.shape, [arith(op, x, b, facts) for x in a.data])
        if not is_num(a):
            raise Unsupported(f"array op with {a!r}")
        return NArr(b.shape, [arith(op, a, y, facts) for y in b.data])
    return arith(op, a, b, facts)


def binop(op, a, b, facts):
    # sequences
    if op == "+" and isinstance(a, tuple) and isinstance(b, tuple):
        return a + b
    if op == "+" and isinstance(a, CList) and isinstance(b, CList):
        return CList(list(a) + list(b))
    if op == "+" and (isinstance(a, SList) or isinstance(b, SList)):
        from .types import slist_concat, to_slist
        t = a.t if isinstance(a, SList) else b.t
        return slist_concat(to_slist(a, t), to_slist(b, t))
    if op == "+" and (isinstance(a, str) or isinstance(a, z3.SeqRef)) and (isinstance(b, str) or isinstance(b, z3.SeqRef)):
        if isinstance(a, str) and isinstance(b, str):
            return a + b
        return z3.Concat(S(a), S(b))
    if op == "*" and isinstance(a, str) and isinstance(b, int):
        return a * b
    if op == "*" and isinstance(a, (tuple, CList)) and isinstance(b, int):
        return type(a)(list(a) * b)
    if op == "%" and isinstance(a, str):
        raise Unsupported("string formatting with %")
    return ew(op, a, b, facts)


def unary(op, a, facts):
    if op == "-":
        if isinstance(a, NArr):
            return NArr(a.shape, [unary("-", x, facts) for x in a.data])
        if isinstance(a, bool):
            return -int(a)
        if isinstance(a, int):
            return -a
        if isinstance(a, F):
            return F(-a.q)
        return -a
    if op == "+":
        return a
    if op == "not":
        t = truth(a)
        return (not t) if isinstance(t, bool) else z3.Not(t)
    raise Unsupported(f"unary {op}")


def truth(v):
    """python truthiness as bool or z3 Bool"""
    if v is None:
        return False
    if isinstance(v, bool):
        return v
    if isinstance(v, z3.BoolRef):
        return v
    if isinstance(v, int):
        return v != 0
    if isinstance(v, F):
        return v.q != 0
    if isinstance(v, z3.ArithRef):
        return v != 0
    if isinstance(v, str):
        return len(v) > 0
    if isinstance(v, z3.SeqRef):
        return z3.Length(v) > 0
    if isinstance(v, (tuple, list)):
        return len(v) > 0
    if isinstance(v, dict):
        return len(v) > 0
    if isinstance(v, SList):
        return v.n > 0
    if isinstance(v, Opt):
        inner = truth(v.val)
        nn = unary("not", v.none, None)
        if isinstance(nn, bool) and isinstance(inner, bool):
            return nn and inner
        return z3.And(B(nn), B(inner))
    if isinstance(v, NArr):
        if len(v.data) == 1:
            return truth(v.data[0])
        raise Unsupported("truth value of an array with more than one element")
    if isinstance(v, Rec):
        return True
    if is_sym(v) and str(v.sort()) == "Node":
        # truthiness of an arbitrary hashable node key (0 and '' are falsy in Python): uninterpreted
        return NODE_TRUTHY(v)
    raise Unsupported(f"truthiness of {type(v).__name__}")


def b_and(*xs):
    xs = [x for x in xs if x is not True]
    if any(x is False for x in xs):
        return False
    if not xs:
        return True
    return z3.And(*[B(x) for x in xs]) if len(xs) > 1 else xs[0]


def b_or(*xs):
    xs = [x for x in xs if x is not False]
    if any(x is True for x in xs):
        return True
    if not xs:
        return False
    return z3.Or(*[B(x) for x in xs]) if len(xs) > 1 else xs[0]


def b_not(x):
    return (not x) if isinstance(x, bool) else z3.Not(x)


def values_equal(a, b):
    """python == on values; returns bool or z3 Bool"""
    if a is None or b is None:
        if isinstance(a, Opt):
            return a.none
        if isinstance(b, Opt):
            return b.none
        return a is None and b is None
    if isinstance(a, Opt) or isinstance(b, Opt):
        if isinstance(a, Opt) and isinstance(b, Opt):
            return b_or(b_and(a.none, b.none), b_and(b_not(a.none), b_not(b.none), values_equal(a.val, b.val)))
        o, x = (a, b) if isinstance(a, Opt) else (b, a)
        return b_and(b_not(o.none), values_equal(o.val, x))
    if isinstance(a, bool) and isinstance(b, bool):
        return a == b
    if isinstance(a, (bool, z3.BoolRef)) and isinstance(b, (bool, z3.BoolRef)):
        return B(a) == B(b)
    if is_num(a) and is_num(b):
        if is_concrete_num(a) and is_concrete_num(b):
            return q(a) == q(b)
        if is_float(a) or is_float(b):
            return real(a) == real(b)
        return I(a) == I(b)
    if isinstance(a, str) and isinstance(b, str):
        return a == b
    if isinstance(a, str) and is_sym(b) and b.sort() == _NodeSort:
        return intern_name(a) == b
    if isinstance(b, str) and is_sym(a) and a.sort() == _NodeSort:
        return a == intern_name(b)
    if isinstance(a, (str, z3.SeqRef)) and isinstance(b, (str, z3.SeqRef)):
        return S(a) == S(b)
    if type(a).__name__ == "FSet" or type(b).__name__ == "FSet":
        if type(a).__name__ != type(b).__name__:
            return False
        # set equality of small sets with symbolic members: mutual inclusion
        return b_and(*[b_or(*[values_equal(x, y) for y in b]) for x in a], *[b_or(*[values_equal(x, y) for x in a]) for y in b]) \
            if len(a) and len(b) else (len(a) == len(b))
    if isinstance(a, (tuple, list)) and isinstance(b, (tuple, list)) and not isinstance(a, NArr):
        if isinstance(a, tuple) != isinstance(b, tuple):
            return False
        if len(a) != len(b):
            return False
        return b_and(*[values_equal(x, y) for x, y in zip(a, b)])
    if is_sym(a) and is_sym(b) and a.sort() == b.sort():
        return a == b
    if isinstance(a, NArr) or isinstance(b, NArr):
        raise Unsupported("== on arrays is elementwise; use compare_ew")
    # different kinds (e.g. str vs int) are unequal in python
    kinds = (_kind(a), _kind(b))
    if kinds[0] != kinds[1] and None not in kinds:
        return False
    raise Unsupported(f"equality between {type(a).__name__} and {type(b).__name__}")


def _kind(x):
    if isinstance(x, (bool, z3.BoolRef)):
        return "num"
    if is_num(x):
        return "num"
    if isinstance(x, (str, z3.SeqRef)):
        return "str"
    if isinstance(x, tuple):
        return "tuple"
    if isinstance(x, list):
        return "list"
    if is_sym(x):
        return str(x.sort())
    return None


def _inf_compare(op, a, b):
    from .prelude import Inf, Undef
    other = b if isinstance(a, Inf) else a
    if op not in ("==", "!="):
        raise Unsupported("ordering comparison with inf")
    eq = op == "=="
    if isinstance(other, Undef):
        n = 1
        for s_ in other.shape:
            n *= s_
        return NArr(other.shape, [eq] * n)
    if isinstance(other, NArr):
        return NArr(other.shape, [not eq] * len(other.data))     # finite reals never equal inf (A-REAL)
    if is_num(other):
        return not eq
    raise Unsupported("comparison with inf")


def compare(op, a, b):
    from .prelude import Inf
    if isinstance(a, Inf) or isinstance(b, Inf):
        return _inf_compare(op, a, b)
    if op in ("==", "!="):
        if isinstance(a, NArr) or isinstance(b, NArr):
            return compare_ew(op, a, b)
        e = values_equal(a, b)
        return e if op == "==" else b_not(e)
    if isinstance(a, NArr) or isinstance(b, NArr):
        return compare_ew(op, a, b)
    if isinstance(a, bool):
        a = int(a)
    if isinstance(b, bool):
        b = int(b)
    if is_num(a) and is_num(b):
        if is_concrete_num(a) and is_concrete_num(b):
            x, y = q(a), q(b)
            return {"<": x < y, "<=": x <= y, ">": x > y, ">=": x >= y}[op]
        if is_float(a) or is_float(b):
            x, y = real(a), real(b)
        else:
            x, y = I(a), I(b)
        return {"<": x < y, "<=": x <= y, ">": x > y, ">=": x >= y}[op]
    if isinstance(a, tuple) and isinstance(b, tuple):
        # lexicographic
        if not a or not b:
            la, lb = len(a), len(b)
            return {"<": la < lb, "<=": la <= lb, ">": la > lb, ">=": la >= lb}[op]
        strict = {"<": "<", "<=": "<", ">": ">", ">=": ">"}[op]
        head_lt = compare(strict, a[0], b[0])
        head_eq = values_equal(a[0], b[0])
        return b_or(head_lt, b_and(head_eq, compare(op, a[1:], b[1:])))
    raise Unsupported(f"comparison {op} on {type(a).__name__}, {type(b).__name__}")


def compare_ew(op, a, b):
    if isinstance(a, NArr) and isinstance(b, NArr):
        if a.shape != b.shape:
            raise Unsupported("array comparison with different shapes")
        return NArr(a.shape, [compare(op, x, y) for x, y in zip(a.data, b.data)])
    if isinstance(a, NArr):
        return NArr(a.shape, [compare(op, x, b) for x in a.data])
    return NArr(b.shape, [compare(op, a, y) for y in b.data])


def contains(container, x, facts=None):
    """`x in container` as bool / z3 Bool (no forking)"""
    if isinstance(container, (tuple, list)):
        return b_or(*[values_equal(e, x) for e in container]) if len(container) else False
    if isinstance(container, dict):
        return b_or(*[values_equal(k, x) for k in container]) if container else False
    if isinstance(container, SDict):
        return z3.Select(container.dom, key_term(container.k, x))
    if isinstance(container, SSet):
        return z3.Select(container.dom, key_term(container.k, x))
    if type(container).__name__ == "ARange":
        # x in arange(start, stop, 1):  x = start + k for some integer k >= 0 and x < stop
        def _is_int(v):
            return isinstance(v, int) or (isinstance(v, z3.ArithRef) and v.is_int())
        if _is_int(x) and _is_int(container.start):
            return z3.And(I(x) >= I(container.start), real(x) < real(container.stop))
        xs, st, sp = real(x), real(container.start), real(container.stop)
        return z3.And(xs >= st, xs < sp, z3.IsInt(xs - st))
    if isinstance(container, SList):
        i = z3.FreshConst(z3.IntSort(), "i")
        return z3.Exists([i], z3.And(0 <= i, i < container.n, B(values_equal(slist_get(container, i), x))))
    if isinstance(container, str) and isinstance(x, str):
        return x in container
    if isinstance(container, (str, z3.SeqRef)):
        return z3.Contains(S(container), S(x))
    if isinstance(container, Rec):
        # mapping-like record with optional fields:  "key" in rec
        if isinstance(x, str) and x in container.fields:
            f = container.fields[x]
            if isinstance(f, Opt):
                return b_not(f.none)
            return True
        if isinstance(x, str):
            return False
    raise Unsupported(f"`in` on {type(container).__name__}")

"""pyvc symbolic executor: explores every path of a real function body (AST taken from /repo on
each run) by deterministic re-execution under a script of branch decisions, collects proof
obligations (postconditions, loop invariants, callee preconditions, exception safety) and leaves
their discharge to solver.py.

Direct-style interpreter:  ev(node) -> value, ex(stmt);  control flow by Python exceptions;
nondeterminism by self.choose(), replayed from a script (so no state cloning is needed).
"""
import ast
import z3
from fractions import Fraction
from decimal import Decimal

from . import source
from .types import (SODict, TODict, sdict_store, SDefaultDict, TDefaultDict, SMat, TMat, NArr, SList, SDict, SSet, Rec, Opt, CList, FuncRef, ModRef, Unsupported, VerifierError, is_sym,
                    R, I, B, S, T, TInt, TReal, TBool, TStr, TNode, TObj, TTuple, TVec, TList, TDict, TRec, TOpt,
                    slist_get, slist_set, slist_append, slist_slice, to_slist, norm_index, norm_slice_bound,
                    key_term, key_untuple, key_sort_of)
from . import ops
from .ops import F, Facts, truth, b_and, b_or, b_not, values_equal


# ------------------------------------------------------------------------------------------
# control-flow signals

class ReturnEx(Exception):
    def __init__(self, value):
        self.value = value


class BreakEx(Exception):
    pass


class ContinueEx(Exception):
    pass


class PathEnd(Exception):
    """path abandoned (infeasible, or an inductive-step path that has done its job)"""


class PyRaise(Exception):
    """a modelled Python exception raised by the code under verification"""

    def __init__(self, cls, node=None, msg=None):
        self.cls, self.node, self.msg = cls, node, msg


EXC_PARENTS = {
    "KeyError": "LookupError", "IndexError": "LookupError", "LookupError": "Exception",
    "ValueError": "Exception", "TypeError": "Exception", "ZeroDivisionError": "ArithmeticError",
    "ArithmeticError": "Exception", "OSError": "Exception", "IOError": "OSError", "FileNotFoundError": "OSError",
    "NotImplementedError": "RuntimeError", "RuntimeError": "Exception", "AttributeError": "Exception",
    "StopIteration": "Exception", "AssertionError": "Exception", "MatchError": "Exception",
    "Exception": "BaseException",
}
EXC_ALIAS = {"IOError": "OSError", "EnvironmentError": "OSError"}


def exc_isa(cls, parent):
    cls, parent = EXC_ALIAS.get(cls, cls), EXC_ALIAS.get(parent, parent)
    while cls is not None:
        if cls == parent:
            return True
        cls = EXC_ALIAS.get(EXC_PARENTS.get(cls), EXC_PARENTS.get(cls))
    return False


class Obligation:
    def __init__(self, oid, kind, hyps, goal, line, note=""):
        self.oid, self.kind, self.hyps, self.goal, self.line, self.note = oid, kind, hyps, goal, line, note
        self.status = None      # 'unsat' == discharged, 'sat', 'unknown'
        self.backend = None
        self.time = 0.0
        self.model = None

    def __repr__(self):
        return f"<{self.oid} {self.kind} {self.status}>"


class GraphEdges:
    """G.edges of an nx.Graph record (only iteration is modelled)"""

    def __init__(self, graph):
        self.graph = graph


class DefaultDictNew:
    """the value of collections.defaultdict(<factory>) before it is bound to a declared local"""

    def __init__(self, factory):
        self.factory = factory


class GraphNew:
    """the value of networkx.Graph() before it is bound to a local whose graph type the contract declares"""


class SListKeyed(SList):
    """a list of pairs whose first components are distinct keys with a known inverse (zip of a dict's key order with values):
    member(x): x is the first component of an entry; inv(x): its index"""
    __slots__ = ("member", "inv")


class BoundMethod:
    __slots__ = ("path", "obj", "name", "sup")

    def __init__(self, path, obj, name, sup=None):
        self.path, self.obj, self.name = path, obj, name
        self.sup = sup          # class name whose BASES the lookup starts from (a call through super())


class SuperProxy:
    """super() inside a method: the receiver, its access path and the class the method is defined in"""

    def __init__(self, obj, path, cls):
        self.obj, self.path, self.cls = obj, path, cls


class Closure:
    __slots__ = ("node", "env", "mod")

    def __init__(self, node, env, mod):
        self.node, self.env, self.mod = node, env, mod


class ExcClass:
    __slots__ = ("name",)

    def __init__(self, name):
        self.name = name


class Frame:
    def __init__(self, mod, qual, env):
        self.mod, self.qual, self.env = mod, qual, env
        self.loop_ordinal = 0
        self.aliases = {}        # local name -> access path of the object it names (x = container[...]: x IS that element)


BUILTIN_EXC = set(EXC_PARENTS) | {"BaseException"}


class Engine:
    MAX_PATHS = 20000

    def __init__(self, registry=None, prelude=None, feas_timeout_ms=500):
        from . import prelude as _prelude
        self.registry = registry or {}
        self.prelude = dict(_prelude.PRELUDE)
        if prelude:
            self.prelude.update(prelude)
        self.facts = Facts()
        self.obligations = {}
        self.feas_timeout_ms = feas_timeout_ms
        self.frames = []
        self.pc = []
        self.script = []
        self.decisions = []
        self.alternatives = []
        self.counters = {}
        self.catch_stack = []       # list of lists of exception class names caught by enclosing try
        self.allowed_raises = []    # exception classes the top-level contract allows to escape
        self.trusted_used = set()
        self.inlined = set()
        self.contract = None
        self.label = ""
        self.events = []            # effect log of the current path (ghost)
        self.ghost_hits = set()
        self.vacuous_calls = set()
        self.stats = {"paths": 0, "feas_checks": 0}

    # ----------------------------------------------------------------------------------
    # path exploration
    def explore(self, run):
        """run() executes one path; returns list of (decisions, pc, outcome) for completed paths"""
        work = [[]]
        done = []
        while work:
            script = work.pop()
            self._begin_path(script)
            try:
                out = run()
                done.append((list(self.decisions), list(self.pc), out, list(self.events)))
            except PathEnd:
                pass
            work.extend(self.alternatives)
            self.stats["paths"] += 1
            if self.stats["paths"] > self.MAX_PATHS:
                raise Unsupported(f"path budget exceeded ({self.MAX_PATHS})")
        return done

    def _begin_path(self, script):
        self.script = script
        self.decisions = []
        self.alternatives = []
        self.pc = []
        self.frames = []
        self.counters = {}
        self.catch_stack = []
        self.events = []

    def feasible(self, extra):
        self.stats["feas_checks"] += 1
        s = z3.Solver()
        s.set("timeout", self.feas_timeout_ms)
        for f in self.facts.items:
            s.add(f)
        for f in ops.interned_distinct():
            s.add(f)
        for p in self.pc:
            s.add(p)
        s.add(extra)
        return s.check() != z3.unsat

    def choose(self, cond):
        """branch on a (possibly symbolic) boolean; returns the python bool taken on this path"""
        if isinstance(cond, bool):
            return cond
        cond = z3.simplify(B(cond))
        if z3.is_true(cond):
            return True
        if z3.is_false(cond):
            return False
        idx = len(self.decisions)
        if idx < len(self.script):
            take = self.script[idx]
        else:
            ft = self.feasible(cond)
            ff = self.feasible(z3.Not(cond))
            if ft and ff:
                take = True
                self.alternatives.append(self.decisions + [False])
            elif ft:
                take = True
            elif ff:
                take = False
            else:
                raise PathEnd()
        self.decisions.append(take)
        self.pc.append(cond if take else z3.Not(cond))
        return take

    def choose_nd(self, n=2):
        """pure nondeterministic choice among n alternatives (no condition)"""
        idx = len(self.decisions)
        if idx < len(self.script):
            take = self.script[idx]
        else:
            take = 0
            for alt in range(1, n):
                self.alternatives.append(self.decisions + [alt])
        self.decisions.append(take)
        return take

    def assume(self, cond):
        if cond is True:
            return
        if cond is False:
            raise PathEnd()
        self.pc.append(B(cond))

    def fresh(self, name, t):
        n = self.counters.get(name, 0)
        self.counters[name] = n + 1
        v = t.fresh(f"{name}!{n}" if n else name)
        if self.contract is not None and getattr(self.contract, "deep_wf", False):
            from .types import deep_wf
            facts = deep_wf(t, v)
        else:
            facts = t.wf(v)
        for f in facts:
            self.pc.append(f)
        return v

    def oblige(self, kind, label, goal, node=None, note=""):
        line = getattr(node, "lineno", 0)
        oid = f"{self.label}/{kind}:{label}"
        key = (oid, line, tuple(self.decisions))
        if isinstance(goal, bool):
            goal = z3.BoolVal(goal)
        if key not in self.obligations:
            self.obligations[key] = Obligation(oid, kind, list(self.pc) + ops.interned_distinct(), goal, line, note)
        self.pc.append(goal)

    # ----------------------------------------------------------------------------------
    # frames / names
    @property
    def frame(self):
        return self.frames[-1]

    def lookup(self, name, node=None):
        fr = self.frame
        if name in fr.aliases:
            return self.read_path(fr.aliases[name])
        if name in fr.env:
            return fr.env[name]
        return self.module_name(fr.mod, name, node)

    def module_name(self, mod, name, node=None):
        if name in mod.functions:
            return FuncRef(mod.dotted, name)
        if name in mod.classes:
            return FuncRef(mod.dotted, name)          # class reference (constructor)
        if name in mod.imports:
            return self.resolve_dotted(mod.imports[name])
        if name == "LOGGER":
            return LoggerObj()
        if name in mod.assigns:
            return self.eval_module_const(mod, name)
        if name in BUILTIN_EXC or name in EXC_ALIAS:
            return ExcClass(name)
        if ("builtins." + name) in self.prelude:
            return ModRef("builtins." + name)
        if name in ("True", "False", "None"):
            return {"True": True, "False": False, "None": None}[name]
        raise Unsupported(f"unresolved name {name!r} (line {getattr(node, 'lineno', '?')})")

    def resolve_dotted(self, dotted):
        """dotted import target -> FuncRef for repository functions, ModRef otherwise"""
        from .prelude import CONSTS
        if dotted in CONSTS:
            return CONSTS[dotted]
        if dotted in self.prelude:
            return ModRef(dotted)
        if "." in dotted:
            modname, attr = dotted.rsplit(".", 1)
            if source.is_repo_module(modname) and not source.is_repo_module(dotted):
                m = source.load(modname)
                return self.module_name(m, attr)
        return ModRef(dotted)

    def eval_module_const(self, mod, name):
        self.frames.append(Frame(mod, "<module>", {}))
        try:
            return self.ev(mod.assigns[name])
        finally:
            self.frames.pop()

    # ----------------------------------------------------------------------------------
    # exceptions
    def handled(self, cls):
        for handlers in self.catch_stack:
            if any(exc_isa(cls, h) for h in handlers):
                return True
        return any(exc_isa(cls, a) for a in self.allowed_raises)

    def may_raise(self, cls, bad, node, what=""):
        """a site that raises `cls` when `bad` holds"""
        if bad is False:
            return
        if self.handled(cls):
            if self.choose(bad):
                raise PyRaise(cls, node, what)
        else:
            self.oblige(f"safe@{cls}", f"{what or cls}@{self.site(node)}", b_not(bad), node)

    # ----------------------------------------------------------------------------------
    # statements
    def ex_block(self, stmts):
        for s in stmts:
            self.ex(s)

    def ex(self, node):
        m = getattr(self, "ex_" + type(node).__name__, None)
        if m is None:
            raise Unsupported(f"statement {type(node).__name__} (line {node.lineno})")
        m(node)
        if len(self.frames) == 1 and self.contract is not None and self.contract.ghost and not isinstance(node, (ast.For, ast.While, ast.If, ast.Try)):
            key = "after:" + " ".join(self.frame.mod.segment(node).split())
            hook = self.contract.ghost.get(key)
            if hook is not None:
                self.ghost_hits.add(key)
                hook(self, self.frame.env)

    def ex_Pass(self, node):
        pass

    def ex_Expr(self, node):
        if isinstance(node.value, ast.Constant):
            return      # docstring
        self.ev(node.value)

    def ex_Return(self, node):
        raise ReturnEx(self.ev(node.value) if node.value is not None else None)

    def ex_Break(self, node):
        raise BreakEx()

    def ex_Continue(self, node):
        raise ContinueEx()

    def ex_Assign(self, node):
        val = self.ev(node.value)
        for tgt in node.targets:
            if isinstance(tgt, ast.Name):
                self.frame.aliases.pop(tgt.id, None)
        if (len(node.targets) == 1 and isinstance(node.targets[0], ast.Name) and isinstance(val, Rec) and is_path(node.value)
                and not isinstance(node.value, ast.Name) and root_name(node.value) in self.frame.env):
            # x = obj.container[key]: python binds x to the SAME object; later stores through x must reach the container
            self.frame.env[node.targets[0].id] = val
            self.frame.aliases[node.targets[0].id] = self.lvalue(node.value)
            return
        if isinstance(val, NArr) and len(node.targets) == 1 and isinstance(node.targets[0], ast.Name):
            val = self.name_large(val, node.targets[0].id)
        if isinstance(val, Opt) and not isinstance(val.none, bool) and not self.feasible(val.none):
            val = val.val       # the path condition excludes None: narrow Optional[T] to T
        elif isinstance(val, Opt) and val.none is False:
            val = val.val
        for tgt in node.targets:
            self.assign(tgt, val)

    NAME_THRESHOLD = 40

    def name_large(self, arr, name):
        """let-abstraction: large real-valued entries of an array bound to a variable are replaced by fresh
        constants with defining equalities (keeps later obligations small; semantically neutral)"""
        out, changed = [], False
        if self.contract is not None and not self.contract.let_abstraction:
            return arr
        for x in arr.data:
            if isinstance(x, z3.ArithRef) and term_size(x, self.NAME_THRESHOLD) >= self.NAME_THRESHOLD:
                c = self.fresh(f"let_{name}", TReal)
                d = c == ops.real(x)
                LET_DEFS.add(d.get_id())
                self.pc.append(d)
                out.append(c)
                changed = True
            else:
                out.append(x)
        return NArr(arr.shape, out) if changed else arr

    def ex_AnnAssign(self, node):
        if node.value is not None:
            self.assign(node.target, self.ev(node.value))

    def ex_AugAssign(self, node):
        cur = self.ev(node.target)
        rhs = self.ev(node.value)
        op = BINOPS[type(node.op)]
        if op == "+" and isinstance(cur, (CList, SList)):
            # list += iterable  (in-place extend)
            val = self.list_extend(cur, rhs)
        else:
            val = self.binop(op, cur, rhs, node)
        self.assign(node.target, val)

    def ex_If(self, node):
        if self.choose(truth(self.ev(node.test))):
            self.ex_block(node.body)
        else:
            self.ex_block(node.orelse)

    def ex_Raise(self, node):
        if node.exc is None:
            raise Unsupported("bare raise")
        cls = self.exc_name(node.exc)
        raise PyRaise(cls, node)

    def exc_name(self, e):
        if isinstance(e, ast.Call):
            e = e.func
        if isinstance(e, ast.Name):
            return EXC_ALIAS.get(e.id, e.id)
        if isinstance(e, ast.Attribute):
            return e.attr
        raise Unsupported("raise of a non-class expression")

    def ex_Try(self, node):
        if node.finalbody:
            raise Unsupported("try/finally")
        names = []
        for h in node.handlers:
            if h.type is None:
                names.append("BaseException")
            elif isinstance(h.type, ast.Tuple):
                names.extend(self.exc_name(x) for x in h.type.elts)
            else:
                names.append(self.exc_name(h.type))
        self.catch_stack.append(names)
        depth = len(self.frames)
        try:
            self.ex_block(node.body)
        except PyRaise as e:
            self.catch_stack.pop()
            del self.frames[depth:]
            for h in node.handlers:
                hn = ["BaseException"] if h.type is None else (
                    [self.exc_name(x) for x in h.type.elts] if isinstance(h.type, ast.Tuple) else [self.exc_name(h.type)])
                if any(exc_isa(e.cls, x) for x in hn):
                    if h.name:
                        self.frame.env[h.name] = ExcClass(e.cls)
                    self.ex_block(h.body)
                    return
            raise
        except BaseException:
            self.catch_stack.pop()
            raise
        else:
            self.catch_stack.pop()
            self.ex_block(node.orelse)

    def ex_Delete(self, node):
        for tgt in node.targets:
            if not isinstance(tgt, ast.Subscript):
                raise Unsupported("del of a non-subscript")
            path = self.lvalue(tgt.value)
            cont = self.read_path(path)
            key = self.ev(tgt.slice)
            if isinstance(cont, SDict):
                kt = key_term(cont.k, key)
                self.may_raise("KeyError", b_not(z3.Select(cont.dom, kt)), node, "del")
                if isinstance(cont, SODict):
                    raise Unsupported("deletion from an insertion-ordered dict")
                self.write_path(path, SDict(cont.k, cont.v, z3.Store(cont.dom, kt, False), cont.comps))
            else:
                raise Unsupported(f"del on {type(cont).__name__}")

    def ex_Assert(self, node):
        self.may_raise("AssertionError", b_not(truth(self.ev(node.test))), node, "assert")

    def ex_With(self, node):
        raise Unsupported("with statement")

    def ex_FunctionDef(self, node):
        self.frame.env[node.name] = Closure(node, self.frame.env, self.frame.mod)

    def ex_Import(self, node):
        raise Unsupported("local import")

    ex_ImportFrom = ex_Import

    # ---- loops
    def loop_spec(self, node):
        fr = self.frame
        k = self.static_loop_ordinal(fr, node)
        if self.contract is not None and len(self.frames) == 1:
            return k, self.contract.loops.get(k)
        c = self.registry.get(f"{fr.mod.dotted}:{fr.qual}")
        return k, (c.loops.get(k) if c is not None else None)

    def site(self, node):
        """line-independent name of a program point: ordinal of the AST node among the nodes of its kind in the enclosing
        function (so that edits elsewhere in the file do not rename obligations)"""
        if node is None:
            return "#?"
        fr = self.frame
        fnode = fr.mod.functions.get(fr.qual)
        if fnode is None:
            return "#?"
        cache = getattr(fnode, "_site_ordinals", None)
        if cache is None:
            cache, counters = {}, {}
            for n in ast.walk(fnode):
                if hasattr(n, "lineno"):
                    kind = type(n).__name__
                    counters[kind] = counters.get(kind, 0) + 1
                    cache[id(n)] = f"{kind}{counters[kind]}"
            fnode._site_ordinals = cache
        tag = cache.get(id(node), "#?")
        return tag if len(self.frames) <= 1 else f"{fr.qual}.{tag}"

    PURE_METHODS = {"get", "items", "keys", "values", "copy", "format", "split", "strip", "lstrip", "rstrip", "join", "startswith", "endswith",
                    "index", "count", "reshape", "casefold", "lower", "upper", "replace", "isdigit", "predecessors", "neighbors", "all", "any", "sum",
                    "info", "debug", "warning", "error", "degree", "has_edge", "has_node"}

    def impure_call(self, call):
        """may this call modify objects reachable from its receiver / arguments?  (used to decide what a loop havocs)
        Pure: builtins and modelled library functions, methods in PURE_METHODS, repository functions/methods all of whose
        contracts in the registry have an empty `modifies`.  Everything else is treated as impure (conservative)."""
        f = call.func
        if isinstance(f, ast.Name):
            name = f.id
            if ("builtins." + name) in self.prelude or name in BUILTIN_EXC:
                return False
            mod = self.frame.mod
            if name in mod.imports and not source.is_repo_module(mod.imports[name].rsplit(".", 1)[0]):
                return False
        elif isinstance(f, ast.Attribute):
            name = f.attr
            if name in MUTATORS:
                return True
            if name in self.PURE_METHODS:
                return False
            r = root_name(f.value)
            if r is not None and r not in self.frame.env and r in self.frame.mod.imports and not source.is_repo_module(self.frame.mod.imports[r]):
                return False        # np.xxx, nx.xxx, random.xxx, ... (library call; the prelude models write through paths explicitly)
        else:
            return True
        cs = [c for k, c in self.registry.items() if k.split(":")[1].split(".")[-1] == name]
        if cs and all(not c.modifies for c in cs):
            return False
        return True

    def inline_candidates(self, name):
        """functions named `name` that the current contract allows to be executed at the call site (incl. constructors)"""
        out = []
        pol = set(self.contract.inline_callees) if self.contract is not None else set()
        for key in pol:
            m, q = key.split(":")
            last = q.split(".")[-1]
            try:
                cmod = source.load(m)
            except Exception:
                continue
            if q not in cmod.functions:
                continue
            if last == name:
                out.append((cmod, q, False))
            elif last == "__init__" and q.split(".")[0] == name:
                out.append((cmod, q, True))
        return out

    def havoc_plan(self, stmts, self_name=None, _seen=()):
        whole, paths, _rebound = self.havoc_plan3(stmts, self_name, _seen)
        return whole, paths

    def havoc_plan3(self, stmts, self_name=None, _seen=()):
        """what a loop body may modify: (names havoc'd as a whole, attribute paths havoc'd individually).
        Stores `a.b.c = v` / `a.b[i] = v` / `a.b.append(v)` havoc the path up to the first subscript; calls with known contracts
        havoc exactly the contract's `modifies` mapped onto the receiver / argument expressions; other impure calls havoc the
        receiver and path arguments as a whole; a name bound to a container element (alias) makes its container root havoc'd."""
        whole, paths = set(), set()
        rebound = set()      # names that are only re-bound (assignment / loop targets): nothing is stored through them
        amap = alias_roots(stmts)

        def path_of(n):
            chain, cur = [], n
            while isinstance(cur, (ast.Attribute, ast.Subscript)):
                chain.append(cur)
                cur = cur.value
            if not isinstance(cur, ast.Name):
                return None
            attrs = []
            for c in reversed(chain):
                if isinstance(c, ast.Attribute):
                    attrs.append(c.attr)
                else:
                    break
            return cur.id, tuple(attrs)

        def add(po, rest=()):
            if po is None:
                return
            root, attrs = po
            if root in amap:
                whole.update(amap[root])       # stores through an alias reach the container it was taken from
            if not attrs and not rest:
                whole.add(root)
            else:
                paths.add((root, tuple(attrs) + tuple(rest)))

        for st in stmts:
            for n in ast.walk(st):
                if isinstance(n, (ast.Assign, ast.AugAssign, ast.AnnAssign)):
                    for t in (n.targets if isinstance(n, ast.Assign) else [n.target]):
                        if isinstance(t, (ast.Tuple, ast.List)):
                            whole.update(names_in_target(t))
                            rebound.update(names_in_target(t))
                        elif isinstance(t, ast.Name):
                            whole.add(t.id)         # rebinding a name stores nothing through what it was bound to before
                            rebound.add(t.id)
                        else:
                            add(path_of(t))
                elif isinstance(n, ast.For):
                    whole.update(names_in_target(n.target))
                    rebound.update(names_in_target(n.target))
                elif isinstance(n, ast.Delete):
                    for t in n.targets:
                        add(path_of(t))
                elif isinstance(n, ast.Call):
                    f = n.func
                    if isinstance(f, ast.Attribute) and isinstance(f.value, ast.Call) and isinstance(f.value.func, ast.Name) \
                            and f.value.func.id == "super":
                        # a method of a base class outside the analysed code: it may change anything of the receiver
                        sn = self_name
                        if sn is None and "." in self.frame.qual:
                            fn_ = self.frame.mod.functions.get(self.frame.qual)
                            sn = fn_.args.args[0].arg if fn_ is not None and fn_.args.args else None
                        if sn is not None:
                            paths.add((sn, ()))
                        continue
                    if isinstance(f, ast.Attribute) and f.attr in MUTATORS:
                        add(path_of(f.value))
                        continue
                    if not self.impure_call(n):
                        continue
                    name = f.attr if isinstance(f, ast.Attribute) else (f.id if isinstance(f, ast.Name) else None)
                    cs = [c for k, c in self.registry.items() if k.split(":")[1].split(".")[-1] == name and not c.inline]
                    exprs_all = ([f.value] if isinstance(f, ast.Attribute) else []) + list(n.args) + [k.value for k in n.keywords]
                    inl = self.inline_candidates(name) if not cs else []
                    if inl:
                        # callee executed at the call site: its own stores, mapped from formal parameters to the actual expressions
                        for cmod, cq, is_ctor in inl:
                            fnode_c = cmod.functions[cq]
                            formals = [a.arg for a in fnode_c.args.args]
                            actuals = {}
                            offset = 0
                            if is_ctor:
                                offset = 1              # self is the fresh object
                            elif isinstance(f, ast.Attribute) and "." in cq:
                                actuals[formals[0]] = f.value
                                offset = 1
                            for i_, a_ in enumerate(n.args):
                                if i_ + offset < len(formals):
                                    actuals[formals[i_ + offset]] = a_
                            for kw in n.keywords:
                                if kw.arg:
                                    actuals[kw.arg] = kw.value
                            if (cmod.dotted, cq) in _seen:
                                continue
                            saved_mod = self.frame.mod
                            self.frame.mod = cmod
                            try:
                                w_c, p_c, r_c = self.havoc_plan3(fnode_c.body, formals[0] if ("." in cq and formals) else None,
                                                                 tuple(_seen) + ((cmod.dotted, cq),))
                            finally:
                                self.frame.mod = saved_mod
                            for w in w_c:
                                if w in actuals and is_path(actuals[w]) and not (is_ctor and w == formals[0]) and w not in r_c:
                                    # the callee hands this formal to something that may change it (an un-modelled call, a mutator):
                                    # the caller's object is havoc'd.  (Merely re-binding the formal does not touch the caller's object.)
                                    add(path_of(actuals[w]))
                            for (r_, at_) in p_c:
                                if r_ in actuals and is_path(actuals[r_]) and not (is_ctor and r_ == formals[0]):
                                    add(path_of(actuals[r_]), at_)
                        continue
                    if not cs:
                        for e in exprs_all:
                            if is_path(e):
                                add((root_name(e), ()))
                        continue
                    for c in cs:
                        pnames = list(c.params)
                        is_method = "." in c.qual and pnames and pnames[0] == "self"
                        for mpath in c.modifies:
                            parts = mpath.split(".")
                            p0, rest = parts[0], parts[1:]
                            expr = None
                            if is_method and p0 == "self" and isinstance(f, ast.Attribute):
                                expr = f.value
                            else:
                                try:
                                    mod_ = source.load(c.module)
                                    fnode = mod_.functions.get(c.qual)
                                    formal = [a.arg for a in fnode.args.args] if fnode is not None else pnames
                                except Exception:
                                    formal = pnames
                                if is_method:
                                    formal = formal[1:]
                                if p0 in formal and formal.index(p0) < len(n.args):
                                    expr = n.args[formal.index(p0)]
                                for kw in n.keywords:
                                    if kw.arg == p0:
                                        expr = kw.value
                            if expr is None or not is_path(expr):
                                continue
                            add(path_of(expr), rest)
        return whole, paths, rebound

    def static_loop_ordinal(self, fr, node):
        fnode = fr.mod.functions.get(fr.qual)
        if fnode is None:
            return -1
        cache = getattr(fnode, "_loop_ordinals", None)
        if cache is None:
            loops = [n for n in ast.walk(fnode) if isinstance(n, (ast.For, ast.While))]
            loops.sort(key=lambda n: (n.lineno, n.col_offset))
            cache = {id(n): i for i, n in enumerate(loops)}
            fnode._loop_ordinals = cache
        return cache.get(id(node), -1)

    def ex_For(self, node):
        ordinal, spec = self.loop_spec(node)
        it = self.ev(node.iter)
        items = self.concrete_items(it)
        if items is not None:
            try:
                for pos_, item in enumerate(items):
                    self.assign(node.target, item)
                    if isinstance(node.target, ast.Name) and isinstance(item, Rec) and is_path(node.iter) and root_name(node.iter) in self.frame.env \
                            and isinstance(it, (CList, tuple)):
                        self.frame.aliases[node.target.id] = self.lvalue(node.iter) + [("idx", pos_)]
                    try:
                        self.ex_block(node.body)
                    except ContinueEx:
                        continue
                else:
                    self.ex_block(node.orelse)
            except BreakEx:
                pass
            return
        if spec is None:
            raise Unsupported(f"loop #{ordinal} at line {node.lineno} iterates over symbolic data and has no invariant")
        self.last_dict_pos = None
        seq = self.as_sequence(it)
        if self.last_dict_pos is not None:
            self.frame.env["_pos%d" % ordinal] = self.last_dict_pos     # ghost: iteration position of a key (bijection with _seq)
        self.inductive_loop(node, ordinal, spec, seq=seq)

    def ex_While(self, node):
        ordinal, spec = self.loop_spec(node)
        if spec is None:
            # try plain unrolling while the guard stays concrete
            guard = 0
            try:
                while True:
                    c = truth(self.ev(node.test))
                    if not isinstance(c, bool):
                        raise Unsupported(f"while loop #{ordinal} at line {node.lineno} has a symbolic guard and no invariant")
                    if not c:
                        self.ex_block(node.orelse)
                        break
                    guard += 1
                    if guard > 10000:
                        raise Unsupported("while loop unrolling budget")
                    try:
                        self.ex_block(node.body)
                    except ContinueEx:
                        continue
            except BreakEx:
                pass
            return
        self.inductive_loop(node, ordinal, spec, seq=None)

    def inductive_loop(self, node, ordinal, spec, seq):
        """Hoare rule for a loop with invariant.  seq is the SList iterated by a `for`, None for `while`."""
        fr = self.frame
        env = fr.env
        kname = spec.index
        active = getattr(fr, "active_loop_indices", None)
        if active is None:
            active = fr.active_loop_indices = []
        if seq is not None and kname in active:
            raise Unsupported(f"loop #{ordinal} is nested in a loop with the same ghost index name {kname!r}: give one of them another `index`")
        entry_env = dict(env)
        senv = lambda: dict(env, **{"_entry": entry_env})       # noqa: E731
        if seq is not None:
            env[kname] = 0
            env["_seq%d" % ordinal] = seq
        for name, d in getattr(spec, "defs", []):
            self.assume(self.spec_eval(d, env, old_env=self.entry_env0, extra={"entry": entry_env}))
        # 1. established
        for name, inv in spec.invariants:
            self.oblige("inv.init", f"loop{ordinal}.{name}", self.spec_eval(inv, env, old_env=self.entry_env0, extra={"entry": entry_env}), node)
        # 2. arbitrary iteration state: havoc everything the body may assign
        whole, paths = self.havoc_plan(node.body)
        if seq is not None:
            whole |= names_in_target(node.target)
        for nm in sorted(whole):
            if nm in env and nm != kname:
                env[nm] = self.havoc_like(env[nm], nm)
        for root, attrs in sorted(paths):
            if root in whole or root not in env or root == kname:
                continue
            p = [("name", root)] + [("attr", a) for a in attrs]
            try:
                cur = self.read_path(p)
            except (Unsupported, KeyError):
                env[root] = self.havoc_like(env[root], root)
                whole.add(root)
                continue
            self.write_path(p, self.havoc_like(cur, "_".join((root,) + attrs)))
        for path in spec.modifies:
            p = self.lvalue(ast.parse(path, mode="eval").body)
            self.write_path(p, self.havoc_like(self.read_path(p), path.replace(".", "_")))
        if seq is not None:
            k = self.fresh(f"{kname}_{ordinal}", TInt)
            env[kname] = k
            self.assume(k >= 0)
            self.assume(k <= seq.n)
        for name, inv in spec.invariants:
            self.assume(self.spec_eval(inv, env, old_env=self.entry_env0, extra={"entry": entry_env}))
        for name, hyp in getattr(spec, "head_assumptions", []):
            self.assume(self.spec_eval(hyp, env, old_env=self.entry_env0, extra={"entry": entry_env}))
            self.trusted_used.add(f"assumed at the head of loop {ordinal}: {name}")
        which = self.choose_nd(2)
        if which == 0:
            # ---- one more iteration
            if seq is not None:
                self.assume(env[kname] < seq.n)
                elem = slist_get(seq, env[kname])
                self.assign(node.target, elem)
                if isinstance(node.target, ast.Name) and isinstance(elem, Rec) and is_path(node.iter) and root_name(node.iter) in env \
                        and isinstance(self.read_path(self.lvalue(node.iter)), SList):
                    fr.aliases[node.target.id] = self.lvalue(node.iter) + [("idx", env[kname])]
                # for i, x in enumerate(<path to a list of records>): x aliases the k-th element
                if isinstance(node.target, ast.Tuple) and len(node.target.elts) == 2 and all(isinstance(e_, ast.Name) for e_ in node.target.elts) \
                        and isinstance(node.iter, ast.Call) and isinstance(node.iter.func, ast.Name) and node.iter.func.id == "enumerate" \
                        and len(node.iter.args) == 1 and not node.iter.keywords and is_path(node.iter.args[0]) and root_name(node.iter.args[0]) in env \
                        and isinstance(elem, tuple) and isinstance(elem[1], Rec) and isinstance(self.read_path(self.lvalue(node.iter.args[0])), SList):
                    fr.aliases[node.target.elts[1].id] = self.lvalue(node.iter.args[0]) + [("idx", env[kname])]
            else:
                if not self.choose(truth(self.ev(node.test))):
                    raise PathEnd()
            active.append(kname)
            try:
                self.ex_block(node.body)
            except ContinueEx:
                pass
            except BreakEx:
                return          # continue after the loop with the current state (no else)
            finally:
                active.pop()
            if seq is not None:
                env[kname] = env[kname] + 1
            for name, inv in spec.invariants:
                self.oblige("inv.preserved", f"loop{ordinal}.{name}", self.spec_eval(inv, env, old_env=self.entry_env0, extra={"entry": entry_env}), node)
            raise PathEnd()
        # ---- exit
        if seq is not None:
            self.assume(env[kname] == seq.n)
        else:
            if self.choose(truth(self.ev(node.test))):
                raise PathEnd()
        self.ex_block(node.orelse)

    def havoc_like(self, v, name):
        if isinstance(v, LoggerObj):
            return v            # loggers / progress bars carry no verified state
        try:
            t = type_of(v)
        except Unsupported:
            # a value whose type cannot be described (e.g. an object holding an empty list literal): after the havoc it may
            # not be READ before it is assigned again; any use of the poison value makes the function unsupported (never silently wrong)
            return Poison(name)
        return self.fresh(name, t)

    def concrete_items(self, it):
        if isinstance(it, (tuple, CList, list)):
            return list(it)
        if isinstance(it, NArr):
            return it.rows()
        if isinstance(it, range):
            return list(it)
        if isinstance(it, dict):
            return list(it.keys())
        if isinstance(it, str):
            return list(it)
        if isinstance(it, Rec) and it.cls == "dictview":
            return it.fields["items"]
        return None

    def as_sequence(self, it):
        if isinstance(it, SList):
            return it
        if isinstance(it, SymRange):
            i = z3.Int("_r")
            return SList(TInt, z3.If(it.hi > it.lo, it.hi - it.lo, 0), [z3.Lambda([i], i + it.lo)])
        if isinstance(it, SDefaultDict):
            raise Unsupported("iteration over a defaultdict (its key set is not modelled)")
        if isinstance(it, SDict):
            return self.dict_keys(it)
        if isinstance(it, GraphEdges):
            return self.graph_edges(it.graph)
        if isinstance(it, Rec) and "nodes" in it.fields and "adj" in it.fields and isinstance(it.fields["nodes"], SDict):
            return self.dict_keys(it.fields["nodes"])          # iterating a graph iterates its nodes
        if type(it).__name__ == "DictItems":
            keys = self.dict_keys(it.d)
            i = z3.Int("_di")
            kt = keys.comps[0][i]
            t = TTuple(it.d.k, it.d.v)
            return SList(t, keys.n, [z3.Lambda([i], kt)] + [z3.Lambda([i], c[kt]) for c in it.d.comps])
        raise Unsupported(f"iteration over {type(it).__name__}")

    def dict_keys(self, d):
        """ghost key sequence of a symbolic dict: a bijection between [0,n) and dom(d)"""
        if isinstance(d, SODict):
            # insertion order is part of the value: the representation invariant is checked (obligation), then used
            rep = z3.And(*TODict.rep(d))
            self.oblige("model", f"ordered dict: order enumerates the keys once@{len(self.obligations)}", rep, None)
            self.assume(rep)
            pos_arr = d.pos
            self.last_dict_pos = lambda x: pos_arr[x]      # noqa: E731
            return d.order
        ks = key_sort_of(d.k)
        tag = f"keys{self.counters.get('keys', 0)}"
        self.counters["keys"] = self.counters.get("keys", 0) + 1
        n = z3.Int(f"{tag}.n")
        arr = z3.Const(f"{tag}.arr", z3.ArraySort(z3.IntSort(), ks))
        pos = z3.Function(f"{tag}.pos", ks, z3.IntSort())
        i = z3.Int("_ki")
        x = z3.Const("_kx", ks)
        self.assume(n >= 0)
        self.assume(z3.ForAll([i], z3.Implies(z3.And(0 <= i, i < n), z3.And(z3.Select(d.dom, arr[i]), pos(arr[i]) == i))))
        self.assume(z3.ForAll([x], z3.Implies(z3.Select(d.dom, x), z3.And(0 <= pos(x), pos(x) < n, arr[pos(x)] == x))))
        if len(d.k.sorts()) != 1:
            raise Unsupported("iteration over dict with composite keys")
        self.last_dict_pos = pos
        return SList(d.k, n, [arr])

    def graph_edges(self, g):
        """ghost edge sequence of an undirected graph (assumed model of networkx' EdgeView): every listed pair is adjacent, and
        every adjacent unordered pair is listed exactly once, in one of its two orientations"""
        adj = g.fields["adj"]
        tag = f"edges{self.counters.get('edges', 0)}"
        self.counters["edges"] = self.counters.get("edges", 0) + 1
        n = z3.Int(f"{tag}.n")
        ns = TNode.sort
        ea = z3.Const(f"{tag}.a", z3.ArraySort(z3.IntSort(), ns))
        eb = z3.Const(f"{tag}.b", z3.ArraySort(z3.IntSort(), ns))
        pos = z3.Function(f"{tag}.pos", ns, ns, z3.IntSort())
        i = z3.Int("_ei")
        x, y = z3.Const("_ex", ns), z3.Const("_ey", ns)
        has = lambda a, b: z3.Select(adj.dom, key_term(adj.k, (a, b)))      # noqa: E731
        self.assume(n >= 0)
        self.assume(z3.ForAll([i], z3.Implies(z3.And(0 <= i, i < n), z3.And(has(ea[i], eb[i]), pos(ea[i], eb[i]) == i))))
        self.assume(z3.ForAll([x, y], z3.Implies(has(x, y), z3.And(0 <= pos(x, y), pos(x, y) < n, pos(x, y) == pos(y, x),
                                                                   z3.Or(z3.And(ea[pos(x, y)] == x, eb[pos(x, y)] == y),
                                                                         z3.And(ea[pos(x, y)] == y, eb[pos(x, y)] == x))))))
        self.last_edge_pos = pos
        return SList(TTuple(TNode, TNode), n, [ea, eb])

    def ev_Yield(self, node):
        """generator under contract: the yielded values in order are the result (the consumer is assumed to exhaust the generator
        before it looks at anything the generator reads)"""
        val = self.ev(node.value) if node.value is not None else None
        env = self.frame.env
        if "__yield__" not in env:
            raise Unsupported("yield outside a generator under contract")
        cur = env["__yield__"]
        if isinstance(cur, SList):
            env["__yield__"] = slist_append(cur, val)
        else:
            env["__yield__"] = CList(list(cur) + [val])
        return None

    # ---- assignment
    def assign(self, tgt, val):
        if isinstance(tgt, ast.Name):
            self.frame.aliases.pop(tgt.id, None)
            if isinstance(val, GraphNew):
                decl = self.contract.locals.get(tgt.id) if len(self.frames) == 1 and self.contract is not None else None
                if decl is None or set(getattr(decl, "fields", {})) != {"nodes", "adj"}:
                    raise Unsupported(f"networkx.Graph() bound to {tgt.id}: declare its graph type in the contract (locals: TGraph)")
                val = empty_graph(decl)
            if isinstance(val, DefaultDictNew):
                decl = self.contract.locals.get(tgt.id) if len(self.frames) == 1 and self.contract is not None else None
                if not isinstance(decl, TDefaultDict):
                    raise Unsupported(f"defaultdict bound to {tgt.id}: declare it in the contract (locals: TDefaultDict)")
                if val.factory != "list" or not isinstance(decl.v, TList):
                    raise Unsupported("defaultdict factory other than list")
                ks = key_sort_of(decl.k)
                i_ = z3.Int("_dd")
                comps = [z3.K(ks, z3.IntVal(0))] + [z3.K(ks, z3.Lambda([i_], z3.FreshConst(srt, "dd"))) for srt in decl.v.t.sorts()]
                val = SDefaultDict(decl.k, decl.v, z3.K(ks, False), comps)
            if len(self.frames) == 1 and self.contract is not None and tgt.id in self.contract.locals and isinstance(val, CList):
                val = to_slist(val, self.contract.locals[tgt.id].t)
            if len(self.frames) == 1 and self.contract is not None and tgt.id in self.contract.locals and isinstance(val, SDict) \
                    and type(val.v).__name__ == "TConst" and val.v.value is None and isinstance(self.contract.locals[tgt.id], TDict) \
                    and type(self.contract.locals[tgt.id].v).__name__ == "TOpt":
                # {key: None for ...} bound to a declared local whose values are optional: every value is None
                dt = self.contract.locals[tgt.id]
                ks = key_sort_of(dt.k)
                comps_ = [z3.K(ks, True)] + [z3.K(ks, z3.FreshConst(srt, "dv")) for srt in dt.v.t.sorts()]
                val = SDict(dt.k, dt.v, val.dom, comps_)
            if len(self.frames) == 1 and self.contract is not None and tgt.id in self.contract.locals and isinstance(val, AList) \
                    and isinstance(self.contract.locals[tgt.id], TDict):
                # a dict literal with symbolic keys bound to a declared local: the empty dict with the entries stored in order
                dt = self.contract.locals[tgt.id]
                ks = key_sort_of(dt.k)
                d = SDict(dt.k, dt.v, z3.K(ks, False), [z3.K(ks, z3.FreshConst(srt, "dv")) for srt in dt.v.sorts()])
                for k_, v_ in val:
                    d = sdict_store(d, key_term(dt.k, k_), dt.v.flat(v_))
                val = d
            if len(self.frames) == 1 and self.contract is not None and tgt.id in self.contract.locals and isinstance(val, dict) and not val \
                    and isinstance(self.contract.locals[tgt.id], TDict):
                dt = self.contract.locals[tgt.id]
                ks = key_sort_of(dt.k)
                comps_ = [z3.K(ks, z3.FreshConst(srt, "dv")) for srt in dt.v.sorts()]
                if isinstance(dt, TODict):
                    val = SODict(dt.k, dt.v, z3.K(ks, False), comps_, SList(dt.k, z3.IntVal(0), [z3.K(z3.IntSort(), z3.FreshConst(ks, "ok"))]), z3.K(ks, z3.IntVal(0)))
                else:
                    val = SDict(dt.k, dt.v, z3.K(ks, False), comps_)
            self.frame.env[tgt.id] = val
        elif isinstance(tgt, (ast.Tuple, ast.List)):
            items = self.unpack(val, len(tgt.elts), tgt)
            for t, v in zip(tgt.elts, items):
                self.assign(t, v)
        elif isinstance(tgt, (ast.Attribute, ast.Subscript)):
            self.write_path(self.lvalue(tgt), val)
        else:
            raise Unsupported(f"assignment target {type(tgt).__name__}")

    def unpack(self, val, n, node):
        if isinstance(val, (tuple, list)):
            if len(val) != n:
                raise PyRaise("ValueError", node, "unpack")
            return list(val)
        if isinstance(val, NArr) and val.shape[0] == n:
            return val.rows()
        if isinstance(val, Opt):
            self.may_raise("TypeError", val.none, node, "unpack None")
            return self.unpack(val.val, n, node)
        raise Unsupported(f"unpacking {type(val).__name__}")

    # ---- lvalue paths
    def lvalue(self, node):
        """access path  [('name', x), ('attr', f) | ('idx', v) ...]"""
        if isinstance(node, ast.Name):
            if node.id in self.frame.aliases:
                return list(self.frame.aliases[node.id])
            return [("name", node.id)]
        if isinstance(node, ast.Attribute):
            return self.lvalue(node.value) + [("attr", node.attr)]
        if isinstance(node, ast.Subscript):
            base = self.lvalue(node.value)
            if isinstance(node.slice, ast.Slice):
                sl = node.slice
                if sl.lower is None and sl.upper is None and sl.step is None:
                    return base + [("all", None)]
                raise Unsupported("slice assignment other than [:]")
            return base + [("idx", self.ev(node.slice))]
        raise Unsupported(f"lvalue {type(node).__name__}")

    def read_path(self, path):
        v = self.frame.env[path[0][1]] if path[0][1] in self.frame.env and path[0][1] not in self.frame.aliases else self.lookup(path[0][1])
        for kind, x in path[1:]:
            if kind == "attr":
                v = self.get_attr(v, x, None)
            elif kind == "idx":
                v = self.subscript(v, x, None)
            elif kind == "all":
                pass
        return v

    def write_path(self, path, val):
        root = path[0][1]
        if root in self.frame.aliases:
            path = list(self.frame.aliases[root]) + list(path[1:])
            root = path[0][1]
        if len(path) == 1:
            self.frame.env[root] = val
            return
        if root not in self.frame.env:
            raise Unsupported(f"store into non-local object {root}")
        self.frame.env[root] = self._update(self.frame.env[root], path[1:], val)

    def _update(self, obj, steps, val):
        (kind, x), rest = steps[0], steps[1:]
        if kind == "attr" and x == "edges" and isinstance(obj, Rec) and "eattr" in obj.fields and "edges" not in obj.fields:
            # G.edges[(a, b)][key] = value: a store into the attribute dictionary of an existing edge
            if not rest and isinstance(val, Poison):
                # havoc of "G.edges" (a loop body stores edge attributes): every attribute dictionary becomes arbitrary
                return obj.with_field("eattr", self.havoc_like(obj.fields["eattr"], "eattr"))
            if not rest or rest[0][0] != "idx" or not (isinstance(rest[0][1], tuple) and len(rest[0][1]) == 2):
                raise Unsupported("store through G.edges without an edge subscript")
            adj = obj.fields["adj"]
            self.may_raise("KeyError", b_not(z3.Select(adj.dom, key_term(adj.k, rest[0][1]))), None, "edge")
            return self._update(obj, [("attr", "eattr"), ("idx", edge_key(*rest[0][1]))] + list(rest[1:]), val)
        if kind == "all":
            if rest:
                raise Unsupported("nested store after [:]")
            # xs[:] = ys  -- same object, new contents
            if isinstance(obj, (SList, CList)):
                return self.list_extend(CList() if isinstance(val, (CList, tuple)) and isinstance(obj, CList) else SList(obj.t, z3.IntVal(0), obj.comps) if isinstance(obj, SList) else CList(), val)
            if isinstance(obj, NArr):
                if isinstance(val, NArr) and val.shape == obj.shape:
                    return val
            raise Unsupported(f"[:] store on {type(obj).__name__}")
        if kind == "attr":
            if not isinstance(obj, Rec):
                raise Unsupported(f"attribute store on {type(obj).__name__}")
            inner = self._update(obj.fields[x], rest, val) if rest else val
            if not rest and isinstance(inner, CList) and isinstance(obj.fields.get(x), SList):
                inner = to_slist(inner, obj.fields[x].t)        # a list literal stored into a field that held a typed list keeps the type
            return obj.with_field(x, inner)
        # idx
        if isinstance(obj, SList):
            i = norm_index(I(x), obj.n)
            self.may_raise("IndexError", b_not(z3.And(i >= 0, i < obj.n)), None, "store index")
            inner = self._update(slist_get(obj, i), rest, val) if rest else val
            return slist_set(obj, i, inner)
        if isinstance(obj, SDict):
            kt = key_term(obj.k, x)
            if rest:
                if not isinstance(obj, SDefaultDict):
                    self.may_raise("KeyError", b_not(z3.Select(obj.dom, kt)), None, "nested store key")
                inner = self._update(obj.v.unflat([c[kt] for c in obj.comps]), rest, val)
            else:
                inner = val
            fl = obj.v.flat(inner)
            return sdict_store(obj, kt, fl)
        if isinstance(obj, CList):
            if isinstance(x, int):
                i = x + len(obj) if x < 0 else x
                if not 0 <= i < len(obj):
                    raise PyRaise("IndexError")
                new = CList(obj)
                new[i] = self._update(obj[i], rest, val) if rest else val
                return new
            raise Unsupported("symbolic index store into concrete list")
        if isinstance(obj, NArr):
            if rest:
                raise Unsupported("nested store into array")
            return self.narr_store(obj, x, val)
        if isinstance(obj, SMat):
            if rest or not (isinstance(x, tuple) and len(x) == 2 and isinstance(x[0], int)):
                raise Unsupported("matrix store form")
            r, j = x
            j = norm_index(I(j), obj.ncols)
            self.may_raise("IndexError", b_not(z3.And(j >= 0, j < obj.ncols)), None, "column index store")
            comps = list(obj.comps)
            comps[r] = z3.Store(comps[r], j, ops.real(val))
            return SMat(obj.rows, obj.ncols, comps)
        if isinstance(obj, dict):
            if is_sym(x):
                raise Unsupported("symbolic key store into concrete dict")
            new = dict(obj)
            new[x] = self._update(obj[x], rest, val) if rest else val
            return new
        if isinstance(obj, Rec) and isinstance(x, str):
            # mapping-like record
            if x not in obj.fields:
                raise Unsupported(f"store of unknown key {x!r} into record {obj.cls}")
            cur = obj.fields[x]
            if rest:
                base = cur.val if isinstance(cur, Opt) else cur
                inner = self._update(base, rest, val)
            else:
                inner = val
            if isinstance(cur, Opt):
                inner = Opt(False, inner)
            return obj.with_field(x, inner)
        raise Unsupported(f"subscript store on {type(obj).__name__}")

    def narr_store(self, arr, idx, val):
        if isinstance(idx, int) and len(arr.shape) == 1:
            new = list(arr.data)
            new[idx] = val
            return NArr(arr.shape, new)
        if isinstance(idx, tuple) and len(idx) == 2 and all(isinstance(i, int) for i in idx) and len(arr.shape) == 2:
            new = list(arr.data)
            new[idx[0] * arr.shape[1] + idx[1]] = val
            return NArr(arr.shape, new)
        if isinstance(idx, int) and len(arr.shape) == 2 and isinstance(val, NArr):
            c = arr.shape[1]
            new = list(arr.data)
            new[idx * c:(idx + 1) * c] = val.data
            return NArr(arr.shape, new)
        raise Unsupported("array store")

    def list_extend(self, cur, rhs):
        if isinstance(cur, CList) and isinstance(rhs, (CList, tuple, list)):
            return CList(list(cur) + list(rhs))
        if isinstance(cur, SList) or isinstance(rhs, SList):
            t = cur.t if isinstance(cur, SList) else rhs.t
            from .types import slist_concat
            return slist_concat(to_slist(cur, t), to_slist(rhs, t))
        raise Unsupported("list extend")

    # ----------------------------------------------------------------------------------
    # expressions
    def ev(self, node):
        m = getattr(self, "ev_" + type(node).__name__, None)
        if m is None:
            raise Unsupported(f"expression {type(node).__name__} (line {getattr(node, 'lineno', '?')})")
        return m(node)

    def ev_Constant(self, node):
        v = node.value
        if isinstance(v, float):
            return F(Fraction(Decimal(repr(v))))
        if isinstance(v, (int, str, bool)) or v is None:
            return v
        if v is Ellipsis:
            return Ellipsis
        raise Unsupported(f"constant {v!r}")

    def ev_Name(self, node):
        return self.lookup(node.id, node)

    def ev_Tuple(self, node):
        out = []
        for e in node.elts:
            if isinstance(e, ast.Starred):
                out.extend(self.concrete_or_fail(self.ev(e.value)))
            else:
                out.append(self.ev(e))
        return tuple(out)

    def ev_List(self, node):
        return CList(self.ev_Tuple(node))

    def ev_Set(self, node):
        raise Unsupported("set literal")

    def ev_Dict(self, node):
        pairs = []
        for k, v in zip(node.keys, node.values):
            if k is None:
                raise Unsupported("dict unpacking in literal")
            pairs.append((self.ev(k), self.ev(v)))
        if any(is_sym(k) or isinstance(k, tuple) and any(is_sym(x) for x in k) for k, _ in pairs):
            return AList(pairs)
        return dict(pairs)

    def ev_JoinedStr(self, node):
        return z3.FreshConst(z3.StringSort(), "fstr")

    def ev_Lambda(self, node):
        return Closure(node, self.frame.env, self.frame.mod)

    def ev_IfExp(self, node):
        if self.choose(truth(self.ev(node.test))):
            return self.ev(node.body)
        return self.ev(node.orelse)

    def ev_BoolOp(self, node):
        is_and = isinstance(node.op, ast.And)
        val = None
        for i, e in enumerate(node.values):
            val = self.ev(e)
            if i == len(node.values) - 1:
                return val
            t = truth(val)
            taken = self.choose(t)
            if is_and and not taken:
                return False if isinstance(val, (z3.BoolRef, bool)) else val
            if not is_and and taken:
                return True if isinstance(val, (z3.BoolRef, bool)) else val
        return val

    def ev_UnaryOp(self, node):
        v = self.ev(node.operand)
        op = {ast.USub: "-", ast.UAdd: "+", ast.Not: "not", ast.Invert: "~"}[type(node.op)]
        return ops.unary(op, v, self.facts)

    def ev_BinOp(self, node):
        return self.binop(BINOPS[type(node.op)], self.ev(node.left), self.ev(node.right), node)

    def binop(self, op, a, b, node):
        if op in ("/", "//", "%") and not isinstance(a, (str,)):
            self.div_guard(b, node)
        if op == "**":
            self.pow_guard(a, b, node)
        try:
            return ops.binop(op, a, b, self.facts)
        except ZeroDivisionError:
            raise PyRaise("ZeroDivisionError", node)

    def div_guard(self, b, node):
        if isinstance(b, NArr):
            for x in b.data:
                self.div_guard(x, node)
            return
        if ops.is_concrete_num(b):
            if ops.q(b) == 0:
                raise PyRaise("ZeroDivisionError", node)
            return
        if isinstance(b, z3.ArithRef):
            self.may_raise("ZeroDivisionError", b == 0, node, "division")

    def pow_guard(self, a, b, node):
        if ops.is_concrete_num(b) and ops.q(b).denominator != 1:
            # fractional power of a negative float is complex in Python 3: treat as a failure site
            for x in (a.data if isinstance(a, NArr) else [a]):
                if ops.is_concrete_num(x):
                    if ops.q(x) < 0:
                        raise PyRaise("ValueError", node, "fractional power of negative")
                else:
                    self.may_raise("ValueError", ops.real(x) < 0, node, "fractional power of negative number")
        if ops.is_concrete_num(b) and ops.q(b) < 0:
            self.div_guard(a, node)

    def ev_Compare(self, node):
        left = self.ev(node.left)
        result = True
        for i, (op, rn) in enumerate(zip(node.ops, node.comparators)):
            right = self.ev(rn)
            r = self.cmp(op, left, right, node)
            if i == len(node.ops) - 1:
                return r if result is True else b_and(result, r)
            # chained: short circuit
            if not self.choose(truth(r)):
                return False
            left = right
        return result

    def cmp(self, op, a, b, node):
        from .prelude import ColView, DefMask, Inf
        if isinstance(a, ColView) and isinstance(b, Inf) and isinstance(op, ast.NotEq):
            return DefMask(a.rows)
        if isinstance(op, (ast.Is, ast.IsNot)):
            r = self.identity(a, b)
            return r if isinstance(op, ast.Is) else b_not(r)
        if isinstance(op, (ast.In, ast.NotIn)):
            r = ops.contains(b, a, self.facts)
            return r if isinstance(op, ast.In) else b_not(r)
        return ops.compare(CMPOPS[type(op)], a, b)

    def identity(self, a, b):
        if a is None or b is None:
            o = b if a is None else a
            if o is None:
                return True
            if isinstance(o, Opt):
                return o.none
            return False
        if isinstance(a, (FuncRef, ModRef)) and isinstance(b, (FuncRef, ModRef)):
            return repr(a) == repr(b)
        if isinstance(a, PyType) and isinstance(b, ModRef):
            return a.name == b.dotted.split(".")[-1]
        if isinstance(a, bool) and isinstance(b, bool):
            return a == b
        raise Unsupported("`is` on non-None operands")

    def ev_Attribute(self, node):
        base = self.ev(node.value)
        return self.get_attr(base, node.attr, node)

    def get_attr(self, base, attr, node):
        from .prelude import OpaqueVal
        if isinstance(base, OpaqueVal):
            return base
        if isinstance(base, SuperProxy):
            return BoundMethod(base.path, base.obj, attr, sup=base.cls)
        if isinstance(base, ModRef):
            return self.resolve_dotted(base.dotted + "." + attr)
        if isinstance(base, FuncRef) and source.is_repo_module(base.module):
            m_ = source.load(base.module)
            q_ = f"{base.qual}.{attr}"
            if base.qual in m_.classes and q_ in m_.functions:
                decos = [ast.unparse(d) for d in m_.functions[q_].decorator_list]
                if "staticmethod" in decos:
                    return FuncRef(base.module, q_)
                raise Unsupported(f"{q_} reached through the class is not a staticmethod")
        if isinstance(base, Rec):
            if attr in base.fields:
                return base.fields[attr]
            if attr == "edges" and "nodes" in base.fields and "adj" in base.fields:
                return GraphEdges(base)
            if ":" in base.cls and source.is_repo_module(base.cls.split(":")[0]):
                # a static method reached through an instance: no receiver is bound
                m_ = source.load(base.cls.split(":")[0])
                q_ = f"{base.cls.split(':')[1]}.{attr}"
                if q_ in m_.functions and "staticmethod" in [ast.unparse(d) for d in m_.functions[q_].decorator_list]:
                    return FuncRef(base.cls.split(":")[0], q_)
            return BoundMethod(self.lvalue(node.value) if node is not None and is_path(node.value) else None, base, attr)
        if isinstance(base, SMat) and attr == "shape":
            return (base.rows, base.ncols)
        if isinstance(base, NArr):
            if attr == "shape":
                return tuple(base.shape)
            if attr == "T" and len(base.shape) == 2:
                r, c = base.shape
                return NArr((c, r), [base.data[i * c + j] for j in range(c) for i in range(r)])
        return BoundMethod(self.lvalue(node.value) if node is not None and is_path(node.value) else None, base, attr)

    def ev_Subscript(self, node):
        base = self.ev(node.value)
        if isinstance(node.slice, ast.Slice):
            lo = self.ev(node.slice.lower) if node.slice.lower is not None else None
            hi = self.ev(node.slice.upper) if node.slice.upper is not None else None
            st = self.ev(node.slice.step) if node.slice.step is not None else None
            return self.slice(base, lo, hi, st, node)
        idx = self.ev(node.slice)
        return self.subscript(base, idx, node)

    def ev_Slice(self, node):
        lo = self.ev(node.lower) if node.lower is not None else None
        hi = self.ev(node.upper) if node.upper is not None else None
        st = self.ev(node.step) if node.step is not None else None
        return slice(lo, hi, st)

    def slice(self, base, lo, hi, st, node):
        if isinstance(base, Rec) and base.cls == "restraint_list":
            if lo == 2 and hi is None and st is None:
                f = base.fields
                self.may_raise("TypeError", S(f["kind"]) != z3.StringVal("rectangle"), node, "restraint[2:] is used as three half lengths: rectangles only")
                return CList([f["a"], f["b"], f["c"], f["kind"]])
            raise Unsupported("restraint slice")
        if isinstance(base, (tuple, CList, str)) and all(x is None or isinstance(x, int) for x in (lo, hi, st)):
            r = base[slice(lo, hi, st)]
            return CList(r) if isinstance(base, CList) else r
        if isinstance(base, NArr):
            if all(x is None or isinstance(x, int) for x in (lo, hi, st)):
                rows = base.rows()[slice(lo, hi, st)]
                if len(base.shape) == 1:
                    return NArr((len(rows),), rows)
                return NArr((len(rows),) + base.shape[1:], [x for r in rows for x in r.data])
        if isinstance(base, SymRange) and st is None:
            # range(a, b)[lo:hi] is the range of the selected positions
            n = z3.If(base.hi > base.lo, base.hi - base.lo, 0)
            l = norm_slice_bound(lo, n, z3.IntVal(0))
            h = norm_slice_bound(hi, n, n)
            return SymRange(base.lo + l, base.lo + z3.If(h > l, h, l))
        if isinstance(base, SList) and st is None:
            l = norm_slice_bound(lo, base.n, z3.IntVal(0))
            h = norm_slice_bound(hi, base.n, base.n)
            return slist_slice(base, l, h)
        if isinstance(base, z3.SeqRef) and st is None:
            n = z3.Length(base)
            l = norm_slice_bound(lo, n, z3.IntVal(0))
            h = norm_slice_bound(hi, n, n)
            return z3.SubString(base, l, z3.If(h > l, h - l, 0))
        raise Unsupported(f"slice of {type(base).__name__} (line {getattr(node, 'lineno', '?')})")

    def subscript(self, base, idx, node):
        if type(base).__name__ == "OpaqueVal":
            return base
        if isinstance(base, GraphEdges):
            # G.edges[(a, b)]: the attribute dictionary of that edge (one dictionary for both orientations)
            g = base.graph
            if "eattr" not in g.fields or not (isinstance(idx, tuple) and len(idx) == 2):
                raise Unsupported("G.edges[...] on a graph whose type has no edge attributes (eattr)")
            adj = g.fields["adj"]
            self.may_raise("KeyError", b_not(z3.Select(adj.dom, key_term(adj.k, idx))), node, "edge")
            return self.subscript(g.fields["eattr"], edge_key(*idx), node)
        if isinstance(base, Rec) and base.cls == "restraint_list":
            return self.restraint_index(base, idx, node)
        if isinstance(base, Opt):
            self.may_raise("TypeError", base.none, node, "subscript of None")
            base = base.val
        if isinstance(base, (tuple, CList)):
            if isinstance(idx, bool):
                idx = int(idx)
            if isinstance(idx, int):
                i = idx + len(base) if idx < 0 else idx
                if not 0 <= i < len(base):
                    raise PyRaise("IndexError", node)
                return base[i]
            if isinstance(idx, z3.ArithRef):
                n = len(base)
                i = norm_index(idx, n)
                self.may_raise("IndexError", b_not(z3.And(i >= 0, i < n)), node, "index")
                return ite_chain([(i == j, base[j]) for j in range(n)])
            raise Unsupported(f"index {idx!r}")
        if isinstance(base, NArr):
            return self.narr_index(base, idx, node)
        if isinstance(base, SMat):
            if isinstance(idx, tuple) and len(idx) == 2 and isinstance(idx[0], int):
                r, j = idx
                if not 0 <= r < base.rows:
                    raise PyRaise("IndexError", node)
                j = norm_index(I(j), base.ncols)
                self.may_raise("IndexError", b_not(z3.And(j >= 0, j < base.ncols)), node, "column index")
                return base.comps[r][j]
            raise Unsupported("matrix index form")
        if isinstance(base, SList) and isinstance(idx, tuple) and len(idx) == 2 and isinstance(idx[0], slice) and idx[0] == slice(None, None, None) and isinstance(idx[1], int):
            from .prelude import ColView
            return ColView(base, idx[1])
        if isinstance(base, SList) and isinstance(idx, (SList, CList)):
            # numpy fancy indexing rows[index_list]
            ix = to_slist(idx, TInt)
            j = z3.Int("_fi")
            self.may_raise("IndexError", b_not(z3.ForAll([j], z3.Implies(z3.And(0 <= j, j < ix.n), z3.And(0 <= ix.comps[0][j], ix.comps[0][j] < base.n)))), node, "fancy index")
            return SList(base.t, ix.n, [z3.Lambda([j], c[ix.comps[0][j]]) for c in base.comps])
        if isinstance(base, SList):
            i = norm_index(I(idx), base.n)
            self.may_raise("IndexError", b_not(z3.And(i >= 0, i < base.n)), node, "index")
            return slist_get(base, i)
        if isinstance(base, SDefaultDict):
            kt = key_term(base.k, idx)
            return base.v.unflat([c[kt] for c in base.comps])      # total map: absent keys read as the default
        if isinstance(base, SDict):
            kt = key_term(base.k, idx)
            self.may_raise("KeyError", b_not(z3.Select(base.dom, kt)), node, "key")
            return base.v.unflat([c[kt] for c in base.comps])
        if isinstance(base, dict):
            if not is_sym(idx) and not isinstance(idx, tuple):
                if idx not in base:
                    raise PyRaise("KeyError", node)
                return base[idx]
            conds = [(B(values_equal(k, idx)), v) for k, v in base.items()]
            self.may_raise("KeyError", b_not(b_or(*[c for c, _ in conds])), node, "key")
            if is_sym(idx) and idx.sort() == TNode.sort and all(isinstance(v, str) for _, v in conds):
                conds = [(c, ops.intern_name(v)) for c, v in conds]      # a table from names to names
            return ite_chain(conds)
        if isinstance(base, Rec) and isinstance(idx, str):
            if idx not in base.fields:
                raise PyRaise("KeyError", node)
            f = base.fields[idx]
            if isinstance(f, Opt):
                self.may_raise("KeyError", f.none, node, f"key {idx}")
                return f.val
            return f
        if isinstance(base, str) and isinstance(idx, int):
            if not -len(base) <= idx < len(base):
                raise PyRaise("IndexError", node)
            return base[idx]
        if isinstance(base, z3.SeqRef):
            n = z3.Length(base)
            i = norm_index(I(idx), n)
            self.may_raise("IndexError", b_not(z3.And(i >= 0, i < n)), node, "string index")
            return z3.SubString(base, i, 1)
        raise Unsupported(f"subscript of {type(base).__name__} (line {getattr(node, 'lineno', '?')})")

    def restraint_index(self, rec, idx, node):
        """build-file restraint parameters are python lists of kind-dependent length:
             sphere    [in_out, centre, r, 'sphere']
             cylinder  [in_out, centre, r, half_height, 'cylinder']
             rectangle [in_out, centre, a, b, c, 'rectangle']
           modelled as one record (in_out, centre, a, b, c, kind); positions that do not exist for a kind carry an obligation"""
        f = rec.fields
        kind = S(f["kind"])
        if idx == 0:
            return f["in_out"]
        if idx == 1:
            return f["centre"]
        if idx == 2:
            return f["a"]
        if idx == -1:
            return f["kind"]
        if idx == 3:
            self.may_raise("TypeError", kind == z3.StringVal("sphere"), node, "restraint[3] of a sphere restraint is its kind string")
            return f["b"]
        if idx == 4:
            self.may_raise("TypeError", kind != z3.StringVal("rectangle"), node, "restraint[4] only exists for rectangles")
            return f["c"]
        raise Unsupported(f"restraint index {idx!r}")

    def narr_index(self, arr, idx, node):
        if isinstance(idx, int):
            rows = arr.rows()
            if not -len(rows) <= idx < len(rows):
                raise PyRaise("IndexError", node)
            return rows[idx]
        if isinstance(idx, tuple) and len(arr.shape) == 2 and len(idx) == 2:
            r, c = arr.shape
            a, b = idx
            if isinstance(a, int) and isinstance(b, int):
                return arr.data[(a % r) * c + (b % c)]
            if isinstance(a, slice) and a == slice(None, None, None) and isinstance(b, int):
                return NArr((r,), [arr.data[i * c + b % c] for i in range(r)])
            if isinstance(b, slice) and b == slice(None, None, None) and isinstance(a, int):
                return NArr((c,), arr.data[(a % r) * c:(a % r) * c + c])
        if isinstance(idx, slice):
            return self.slice(arr, idx.start, idx.stop, idx.step, node)
        raise Unsupported(f"array index {idx!r}")

    def concrete_or_fail(self, v):
        items = self.concrete_items(v)
        if items is None:
            raise Unsupported(f"need a concrete-length iterable, got {type(v).__name__}")
        return items

    # ---- comprehensions
    def ev_ListComp(self, node):
        return CList(self.comprehension(node.elt, node.generators)) if self._compr_concrete(node.generators) else self.sym_comprehension(node)

    def ev_GeneratorExp(self, node):
        return self.ev_ListComp(node)

    def ev_DictComp(self, node):
        """{k(x): v(x) for x in xs} over a symbolic list, without filter"""
        if len(node.generators) != 1 or node.generators[0].ifs:
            raise Unsupported("dict comprehension with filter / nesting")
        g = node.generators[0]
        it = self.ev(g.iter)
        items = self.concrete_items(it)
        if items is not None:
            out = {}
            saved = dict(self.frame.env)
            for item in items:
                self.assign(g.target, item)
                out[self.ev(node.key)] = self.ev(node.value)
            self.frame.env.clear()
            self.frame.env.update(saved)
            return out
        src = it.fields["nodes"] if isinstance(it, Rec) and "nodes" in it.fields and "adj" in it.fields else it
        if isinstance(src, SDict) and not isinstance(src, SDefaultDict) and isinstance(node.key, ast.Name) and isinstance(g.target, ast.Name) \
                and node.key.id == g.target.id and len(src.k.sorts()) == 1:
            # {x: f(x) for x in d}: same key set as d, values given point-wise (f is evaluated under the hypothesis that x is a key)
            kx = z3.Const(f"_dck{node.lineno}", key_sort_of(src.k))
            saved = dict(self.frame.env)
            self.assign(g.target, kx)
            n_alt, n_pc = len(self.alternatives), len(self.pc)
            self.pc.append(z3.Select(src.dom, kx))
            vv = self.ev(node.value)
            del self.pc[n_pc:]
            if len(self.alternatives) != n_alt:         # forced choices (one side infeasible) are fine, real forks are not
                raise Unsupported("branching inside a dict comprehension over symbolic data")
            self.frame.env.clear()
            self.frame.env.update(saved)
            vt = type_of(vv)
            return SDict(src.k, vt, src.dom, [z3.Lambda([kx], ops.term(f) if not is_sym(f) else f) for f in vt.flat(vv)])
        if isinstance(it, SList) and isinstance(node.key, ast.Name) and isinstance(g.target, ast.Name) and node.key.id == g.target.id \
                and len(it.t.sorts()) == 1:
            # {x: f(x) for x in xs} over a symbolic list: the keys are the members of xs, values point-wise
            ks = it.t.sorts()[0]
            kx = z3.Const(f"_dck{node.lineno}", ks)
            j = z3.Int("_dcj")
            member = z3.Exists([j], z3.And(0 <= j, j < it.n, it.comps[0][j] == kx))
            v = node.value
            if isinstance(v, ast.Call) and isinstance(v.func, ast.Attribute) and v.func.attr == "index" and len(v.args) == 1 \
                    and isinstance(v.args[0], ast.Name) and v.args[0].id == g.target.id and self.ev(v.func.value) is it:
                # {x: xs.index(x) for x in xs}: the first position of every member (an uninterpreted function with its defining axioms)
                tag = f"firstidx{self.counters.get('firstidx', 0)}"
                self.counters["firstidx"] = self.counters.get("firstidx", 0) + 1
                fi = z3.Function(tag, ks, z3.IntSort())
                i2 = z3.Int("_dci")
                self.assume(z3.ForAll([kx], z3.Implies(member, z3.And(0 <= fi(kx), fi(kx) < it.n, it.comps[0][fi(kx)] == kx))))
                self.assume(z3.ForAll([i2], z3.Implies(z3.And(0 <= i2, i2 < it.n), fi(it.comps[0][i2]) <= i2)))
                return SDict(it.t, TInt, z3.Lambda([kx], member), [z3.Lambda([kx], fi(kx))])
            saved = dict(self.frame.env)
            self.assign(g.target, kx)
            n_alt, n_pc, n_cnt = len(self.alternatives), len(self.pc), dict(self.counters)
            self.pc.append(member)
            vv = self.ev(node.value)
            del self.pc[n_pc:]
            if len(self.alternatives) != n_alt:
                raise Unsupported("branching inside a dict comprehension over symbolic data")
            if self.counters != n_cnt:
                raise Unsupported("dict comprehension whose value expression introduces ghost constants")
            self.frame.env.clear()
            self.frame.env.update(saved)
            vt = type_of(vv)
            return SDict(it.t, vt, z3.Lambda([kx], member), [z3.Lambda([kx], ops.term(f) if not is_sym(f) else f) for f in vt.flat(vv)])
        xs = self.as_sequence(it)
        i = z3.Int(f"_dc{node.lineno}")
        saved = dict(self.frame.env)
        self.assign(g.target, slist_get(xs, i))
        kv, vv = self.ev(node.key), self.ev(node.value)
        self.frame.env.clear()
        self.frame.env.update(saved)
        kt, vt = type_of(kv), type_of(vv)
        if is_sym(vv) or any(is_sym(x) for x in (vv if isinstance(vv, tuple) else ())):
            raise Unsupported("dict comprehension with a symbolic value expression")
        ks = key_sort_of(kt)
        kx = z3.Const(f"_dck{node.lineno}", ks)
        dom = z3.Lambda([kx], z3.Exists([i], z3.And(0 <= i, i < xs.n, key_term(kt, kv) == kx)))
        comps = [z3.K(ks, ops.term(f) if not is_sym(f) else f) for f in vt.flat(vv)]
        return SDict(kt, vt, dom, comps)

    def _compr_concrete(self, gens):
        # evaluate the first iterable to see whether it is concrete; (cheap double evaluation, side-effect free)
        it = self.ev(gens[0].iter)
        return self.concrete_items(it) is not None

    def comprehension(self, elt, gens):
        out = []
        saved = dict(self.frame.env)

        def rec(gi):
            if gi == len(gens):
                out.append(self.ev(elt))
                return
            g = gens[gi]
            for item in self.concrete_or_fail(self.ev(g.iter)):
                self.assign(g.target, item)
                ok = True
                for c in g.ifs:
                    if not self.choose(truth(self.ev(c))):
                        ok = False
                        break
                if ok:
                    rec(gi + 1)
        rec(0)
        for k in list(self.frame.env):
            if k not in saved:
                del self.frame.env[k]
        self.frame.env.update(saved)
        return out

    def sym_comprehension(self, node):
        """[f(x) for x in xs] over a symbolic list with no filter: a Lambda-defined SList"""
        if len(node.generators) == 1 and node.generators[0].ifs:
            return self.sym_filter_comprehension(node)
        if len(node.generators) != 1:
            raise Unsupported("comprehension over symbolic data with nesting")
        g = node.generators[0]
        xs = self.as_sequence(self.ev(g.iter))
        i = z3.Int(f"_c{node.lineno}_{node.col_offset}")
        saved = dict(self.frame.env)
        self.assign(g.target, slist_get(xs, i))
        n_alt, n_pc = len(self.alternatives), len(self.pc)
        self.pc.append(z3.And(0 <= i, i < xs.n))        # the element expression is only ever evaluated for positions of the list
        val = self.ev(node.elt)
        del self.pc[n_pc:]
        if len(self.alternatives) != n_alt:
            raise Unsupported("branching inside a comprehension over symbolic data")
        self.frame.env.clear()
        self.frame.env.update(saved)
        t = type_of(val)
        return SList(t, xs.n, [z3.Lambda([i], c) for c in t.flat(val)])

    def sym_filter_comprehension(self, node):
        """[x for x in xs if cond(x)]: a duplicate-free-as-xs sublist; characterised by membership (ghost position function)"""
        g = node.generators[0]
        itv = self.ev(g.iter)
        items_of = None
        if type(itv).__name__ == "DictItems" and isinstance(g.target, ast.Tuple) and len(g.target.elts) == 2 \
                and all(isinstance(e, ast.Name) for e in g.target.elts) and isinstance(node.elt, ast.Name) and node.elt.id == g.target.elts[0].id:
            # [k for k, v in d.items() if cond(k, v)]: a filtered list of the keys; v is the value stored under k
            items_of, itv = itv.d, itv.d
        elif not (isinstance(node.elt, ast.Name) and isinstance(g.target, ast.Name) and node.elt.id == g.target.id):
            raise Unsupported("filter comprehension whose element is not the loop variable")
        xs = self.as_sequence(itv)
        if len(xs.t.sorts()) != 1:
            raise Unsupported("filter comprehension over structured elements")
        srt = xs.t.sorts()[0]
        x = z3.Const(f"_fx{node.lineno}", srt)
        saved = dict(self.frame.env)
        if items_of is not None:
            self.assign(g.target.elts[0], x)
            self.assign(g.target.elts[1], items_of.v.unflat([c[x] for c in items_of.comps]))
        else:
            self.assign(g.target, x)
        n_dec = len(self.decisions)
        j0 = z3.Int("_fj0")
        n_pc = len(self.pc)
        if isinstance(itv, SDict):
            member = z3.Select(itv.dom, x)              # iterating a dict: the elements are exactly its keys
        else:
            member = z3.Exists([j0], z3.And(0 <= j0, j0 < xs.n, xs.comps[0][j0] == x))
        self.pc.append(member)     # the filter only ever sees elements of xs
        conds = [truth(self.ev(c)) for c in g.ifs]
        del self.pc[n_pc:]
        if len(self.decisions) != n_dec:
            raise Unsupported("branching inside a comprehension filter")
        self.frame.env.clear()
        self.frame.env.update(saved)
        cond = b_and(*conds)
        tag = f"filt{self.counters.get('filt', 0)}"
        self.counters["filt"] = self.counters.get("filt", 0) + 1
        n = z3.Int(f"{tag}.n")
        arr = z3.Const(f"{tag}.arr", z3.ArraySort(z3.IntSort(), srt))
        pos = z3.Function(f"{tag}.pos", srt, z3.IntSort())
        i, j = z3.Int("_fi2"), z3.Int("_fj2")
        inxs = member
        self.assume(n >= 0)
        self.assume(z3.ForAll([i], z3.Implies(z3.And(0 <= i, i < n), z3.And(z3.substitute(B(cond), (x, arr[i])), z3.substitute(inxs, (x, arr[i])), pos(arr[i]) == i))))
        self.assume(z3.ForAll([x], z3.Implies(z3.And(inxs, B(cond)), z3.And(0 <= pos(x), pos(x) < n, arr[pos(x)] == x))))
        return SList(xs.t, n, [arr])

    # ---- calls
    def ev_Call(self, node):
        fn = self.ev(node.func)
        args = []
        for a in node.args:
            if isinstance(a, ast.Starred):
                args.extend(self.concrete_or_fail(self.ev(a.value)))
            else:
                args.append(self.ev(a))
        kwargs = {}
        for kw in node.keywords:
            if kw.arg is None:
                d = self.ev(kw.value)
                if isinstance(d, dict) and all(isinstance(k, str) for k in d):
                    kwargs.update(d)
                    continue
                if isinstance(d, Rec) and "**" not in kwargs:
                    kwargs["**"] = d        # an opaque mapping handed on as a whole: only a **kwargs parameter can receive it
                    continue
                raise Unsupported("**kwargs call with a non-literal mapping")
            kwargs[kw.arg] = self.ev(kw.value)
        return self.call(fn, args, kwargs, node)

    def call(self, fn, args, kwargs, node):
        if type(fn).__name__ == "OpaqueVal":
            return fn
        if isinstance(fn, ModRef):
            impl = self.prelude.get(fn.dotted)
            if impl is None and "." in fn.dotted:
                # an external (library) function with an ASSUMED contract in the registry
                m_, n_ = fn.dotted.rsplit(".", 1)
                c_ = self.registry.get(f"{m_}:{n_}")
                if c_ is not None:
                    self.trusted_used.add(fn.dotted)
                    return self.apply_contract(c_, FuncRef(m_, n_), args, kwargs, node)
            if impl is None:
                raise Unsupported(f"call to unmodelled external {fn.dotted} (line {getattr(node, 'lineno', '?')})")
            self.trusted_used.add(fn.dotted)
            return impl(self, node, *args, **kwargs)
        if isinstance(fn, FuncRef):
            return self.call_repo(fn, args, kwargs, node)
        if isinstance(fn, BoundMethod) and isinstance(fn.obj, LoggerObj):
            self.events.append(("log", fn.name, getattr(node, "lineno", 0)))
            return None
        if isinstance(fn, BoundMethod):
            return self.call_method(fn, args, kwargs, node)
        if isinstance(fn, Closure):
            return self.call_closure(fn, args, kwargs, node)
        if isinstance(fn, ExcClass):
            return fn
        if isinstance(fn, FuncChoice):
            # dispatch through a table looked up with a symbolic key: one path per entry
            for cond, f in fn.pairs[:-1]:
                if self.choose(cond):
                    return self.call(f, args, kwargs, node)
            self.assume(fn.pairs[-1][0])
            return self.call(fn.pairs[-1][1], args, kwargs, node)
        if isinstance(fn, PyType):
            impl = self.prelude.get("builtins." + fn.name)
            if impl:
                return impl(self, node, *args, **kwargs)
        raise Unsupported(f"call of {type(fn).__name__} (line {getattr(node, 'lineno', '?')})")

    def call_closure(self, clo, args, kwargs, node):
        fnode = clo.node
        env = dict(clo.env)
        self.bind_args(fnode.args, args, kwargs, env, clo.mod)
        self.frames.append(Frame(clo.mod, "<lambda>", env))
        try:
            if isinstance(fnode, ast.Lambda):
                return self.ev(fnode.body)
            try:
                self.ex_block(fnode.body)
            except ReturnEx as r:
                return r.value
            return None
        finally:
            self.frames.pop()

    def bind_args(self, a, args, kwargs, env, mod):
        names = [x.arg for x in a.posonlyargs + a.args]
        if a.vararg:
            env[a.vararg.arg] = tuple(args[len(names):])
            args = args[:len(names)]
        elif len(args) > len(names):
            raise PyRaise("TypeError")
        for n, v in zip(names, args):
            env[n] = v
        defaults = a.defaults
        for i, n in enumerate(names):
            if n in env and i < len(args):
                continue
            if n in kwargs:
                env[n] = kwargs[n]
                continue
            di = i - (len(names) - len(defaults))
            if di >= 0:
                self.frames.append(Frame(mod, "<default>", {}))
                try:
                    env[n] = self.ev(defaults[di])
                finally:
                    self.frames.pop()
            else:
                raise PyRaise("TypeError")
        for k, d in zip(a.kwonlyargs, a.kw_defaults):
            if k.arg in kwargs:
                env[k.arg] = kwargs[k.arg]
            elif d is not None:
                env[k.arg] = self.ev(d)
        extra = {k: v for k, v in kwargs.items() if k not in names and k not in [x.arg for x in a.kwonlyargs]}
        if a.kwarg and "**" in extra:
            if len(extra) > 1:
                raise Unsupported("opaque **mapping mixed with further keyword arguments")
            env[a.kwarg.arg] = extra["**"]
        elif "**" in extra:
            raise Unsupported("opaque **mapping passed to a function without **kwargs")
        elif a.kwarg:
            env[a.kwarg.arg] = dict(extra)
        elif extra:
            raise PyRaise("TypeError")

    def call_repo(self, fr, args, kwargs, node, self_path=None):
        key = fr.key()
        mod = source.load(fr.module)
        contract = self.registry.get(key)
        if contract is not None and not contract.inline:
            return self.apply_contract(contract, fr, args, kwargs, node, self_path)
        if fr.qual in mod.classes and fr.qual not in mod.functions:
            # constructor call: a fresh record of that class, initialised by running __init__ at the call site
            initq = f"{fr.qual}.__init__"
            obj = Rec(f"{fr.module}:{fr.qual}", {})
            if initq not in mod.functions:
                return obj
            policy = self.contract.inline_callees if self.contract is not None else ()
            if f"{fr.module}:{initq}" not in policy:
                raise Unsupported(f"constructor {key} needs an inline permission for {initq}")
            self.inlined.add(f"{fr.module}:{initq}")
            fnode = mod.functions[initq]
            env = {}
            self.bind_args(fnode.args, [obj] + list(args), kwargs, env, mod)
            self.frames.append(Frame(mod, initq, env))
            depth = len(self.frames)
            try:
                try:
                    self.ex_block(fnode.body)
                except ReturnEx:
                    pass
                return self.frames[depth - 1].env[fnode.args.args[0].arg]
            finally:
                del self.frames[depth - 1:]
        if fr.qual not in mod.functions:
            raise Unsupported(f"no contract and no function body for {key}")
        policy = self.contract.inline_callees if self.contract is not None else ()
        if key not in policy and not (contract is not None and contract.inline):
            raise Unsupported(f"call to {key} has neither a contract nor an inline permission (line {getattr(node, 'lineno', '?')})")
        self.inlined.add(key)
        fnode = mod.functions[fr.qual]
        env = {}
        self.bind_args(fnode.args, args, kwargs, env, mod)
        if len(self.frames) > 40:
            raise Unsupported("inline depth")
        self.frames.append(Frame(mod, fr.qual, env))
        depth = len(self.frames)
        result = None
        try:
            try:
                self.ex_block(fnode.body)
            except ReturnEx as r:
                result = r.value
            final_self = self.frames[depth - 1].env.get(fnode.args.args[0].arg) if (self_path is not None and fnode.args.args) else None
        finally:
            del self.frames[depth - 1:]
        if self_path is not None and final_self is not None:
            self.write_path(self_path, final_self)       # the inlined method may have mutated its receiver
        return result

    def call_method(self, bm, args, kwargs, node):
        from .methods import call_method
        return call_method(self, bm, args, kwargs, node)

    # ---- contracts at call sites
    def apply_contract(self, contract, fr, args, kwargs, node, self_path=None):
        """modular call: check requires, havoc modifies, assume ensures"""
        mod = source.load(fr.module) if source.is_repo_module(fr.module) else None
        fnode = mod.functions.get(fr.qual) if mod is not None else None
        names = list(contract.params)
        env = {}
        if fnode is not None:
            self.bind_args(fnode.args, args, kwargs, env, mod)
        else:
            for n, v in zip(names, args):
                env[n] = v
            env.update(kwargs)
        # a contract with constant parameters covers that instance of the function only: pick the variant whose constants are
        # the actual arguments (none: the call is not covered)
        def _const_ok(c_):
            for pn_, pt_ in c_.params.items():
                if type(pt_).__name__ == "TConst" and not isinstance(pt_.value, FuncRef):
                    if pn_ not in env or is_sym(env[pn_]) or env[pn_] != pt_.value:
                        return False
            return True
        if not _const_ok(contract):
            alts = [c_ for c_ in getattr(self.registry, "variants", {}).get(contract.target, []) if c_ is not contract and not c_.inline and _const_ok(c_)]
            if not alts:
                raise Unsupported(f"no contract instance of {fr.qual} for the constant arguments of this call (line {getattr(node, 'lineno', '?')})")
            contract = alts[0]
            names = list(contract.params)
        for pn, pt in contract.params.items():
            if isinstance(pt, TList) and isinstance(env.get(pn), (CList, tuple)):
                env[pn] = to_slist(env[pn], pt.t)
        site = f"{fr.qual}@{self.site(node)}"
        if contract.trusted:
            alias = getattr(contract, "alias_of", None)
            if alias is not None:
                self.trusted_used.add(f"constructor protocol: {contract.target}(...) allocates the object and runs __init__, whose body is verified against "
                                      f"this postcondition (contract {alias.target}{'#' + alias.instance if alias.instance else ''})")
            else:
                self.trusted_used.add(f"ASSUMED contract of {contract.target} (used at {site.split('@')[0]} call sites, not verified): {contract.note}"[:400])
        for pn, pt in contract.params.items():
            if pn not in env and type(pt).__name__ == "TOpt":
                env[pn] = None          # an optional argument that is not passed
        arg_nodes = {}
        if node is not None:
            pnames = [x.arg for x in fnode.args.args] if fnode is not None else list(contract.params)
            off = 1 if (self_path is not None) else 0
            for i, a in enumerate(node.args):
                if i + off < len(pnames):
                    arg_nodes[pnames[i + off]] = a
            for kw in node.keywords:
                arg_nodes[kw.arg] = kw.value
        pre_env = dict(env)
        for name, req in contract.requires:
            self.oblige("pre@call", f"{site}.{name}", self.spec_eval(req, env, old_env=pre_env, contract=contract), node)
        # exceptional exits
        for exc, cond in contract.raises:
            c = self.spec_eval(cond, env, old_env=pre_env, contract=contract)
            if self.handled(exc):
                if self.choose(c):
                    raise PyRaise(exc, node, f"from {fr.qual}")
            else:
                self.oblige(f"safe@{exc}", f"{site}", b_not(c), node)
        # havoc frame
        for pth in contract.modifies:
            root = pth.split(".")[0]
            steps = pth.split(".")[1:]
            cur = env[root]
            new = self._havoc_sub(cur, steps, pth.replace(".", "_"))
            env[root] = new
        result = None
        if contract.result is not None:
            result = self.fresh(f"ret_{fr.qual.split('.')[-1]}", contract.result)
        for gname, gtype in contract.exposes.items():
            env[gname] = self.fresh(f"ghost_{gname}", gtype)
        feasible_before = self.feasible(z3.BoolVal(True))
        for name, ens in list(contract.ensures) + list(contract.defines):
            self.assume(self.spec_eval(ens, dict(env, result=result), old_env=pre_env, contract=contract))
        if feasible_before and not self.feasible(z3.BoolVal(True)):
            # the callee's postcondition contradicts what is known at this call site: every later obligation would be vacuous
            self.vacuous_calls.add(f"{site}: the assumed postcondition of {fr.qual} is unsatisfiable here (missing `modifies`?)")
        # write back modified arguments to the caller's objects
        for root in sorted({p.split(".")[0] for p in contract.modifies}):
            if root == names[0] and self_path is not None:
                self.write_path(self_path, env[root])
            elif root in arg_nodes and is_path(arg_nodes[root]):
                self.write_path(self.lvalue(arg_nodes[root]), env[root])
            else:
                raise Unsupported(f"cannot write back modified argument {root} of {fr.qual}")
        self.events.append(("call", fr.key()))
        return result

    def _havoc_sub(self, cur, steps, name):
        if not steps:
            return self.havoc_like(cur, name)
        if not isinstance(cur, Rec):
            raise Unsupported("modifies path through non-record")
        return cur.with_field(steps[0], self._havoc_sub(cur.fields[steps[0]], steps[1:], name))

    # ----------------------------------------------------------------------------------
    # specification expressions (pure, total, non-forking)
    entry_env0 = None

    def spec_eval(self, spec, env, old_env=None, extra=None, contract=None):
        from .spec import SpecEval
        c = contract or self.contract
        fns = dict(c.spec_fns) if c is not None else {}
        if callable(spec):
            return spec(SpecCtx(self, env, old_env, extra or {}))
        return SpecEval(self, env, old_env if old_env is not None else env, fns, extra or {}).ev(ast.parse(spec.strip(), mode="eval").body)


class SpecCtx:
    def __init__(self, eng, env, old, extra):
        self.eng, self.env, self.old, self.extra = eng, env, old, extra

    def __getitem__(self, k):
        return self.env[k]


class LoggerObj:
    """module-level LOGGER: calls have no effect on the verified state (messages are recorded as ghost events)"""


class Poison:
    """havoc'd value of undescribable type: must be re-assigned before use"""

    def __init__(self, name):
        self.name = name

    def __repr__(self):
        return f"Poison({self.name})"


class AList(list):
    """dict literal with symbolic keys: association list (later entries win)"""


def edge_key(a, b):
    """key of the attribute dictionary of the undirected edge {a, b} (integer node keys): the ordered pair (min, max)"""
    a, b = I(a), I(b)
    return (z3.If(a <= b, a, b), z3.If(a <= b, b, a))


def empty_graph(decl):
    """the value of networkx.Graph(): no nodes, no edges (node attributes of absent nodes are arbitrary)"""
    nt, at = decl.fields["nodes"], decl.fields["adj"]
    ks = key_sort_of(nt.k)
    comps = [z3.K(ks, z3.FreshConst(srt, "dv")) for srt in nt.v.sorts()]
    if isinstance(nt, TODict):
        order = SList(nt.k, z3.IntVal(0), [z3.K(z3.IntSort(), z3.FreshConst(ks, "ok"))])
        nodes = SODict(nt.k, nt.v, z3.K(ks, False), comps, order, z3.K(ks, z3.IntVal(0)))
    else:
        nodes = SDict(nt.k, nt.v, z3.K(ks, False), comps)
    return Rec(decl.cls, {"nodes": nodes, "adj": SSet(at.k, z3.K(key_sort_of(at.k), False))})


class SymRange:
    def __init__(self, lo, hi):
        self.lo, self.hi = I(lo), I(hi)


class PyType:
    def __init__(self, name):
        self.name = name


BINOPS = {ast.Add: "+", ast.Sub: "-", ast.Mult: "*", ast.Div: "/", ast.FloorDiv: "//", ast.Mod: "%", ast.Pow: "**"}
CMPOPS = {ast.Lt: "<", ast.LtE: "<=", ast.Gt: ">", ast.GtE: ">=", ast.Eq: "==", ast.NotEq: "!="}


LET_DEFS = set()      # ids of definitional equalities introduced by let-abstraction (solver may hide them)


def term_size(t, limit):
    n, stack = 0, [t]
    while stack and n < limit:
        x = stack.pop()
        n += 1
        stack.extend(x.children())
    return n


def is_path(node):
    if isinstance(node, ast.Name):
        return True
    if isinstance(node, ast.Attribute):
        return is_path(node.value)
    if isinstance(node, ast.Subscript):
        return is_path(node.value) and not isinstance(node.slice, ast.Slice)
    return False


def alias_roots(stmts):
    """name -> root of the path it was bound to by `name = path` / `for name in path` inside these statements"""
    m = {}
    for s in stmts:
        for n in ast.walk(s):
            if isinstance(n, ast.Assign) and len(n.targets) == 1 and isinstance(n.targets[0], ast.Name) and is_path(n.value) and not isinstance(n.value, ast.Name):
                r = root_name(n.value)
                if r:
                    m.setdefault(n.targets[0].id, set()).add(r)
            elif isinstance(n, ast.For) and isinstance(n.target, ast.Name) and is_path(n.iter):
                r = root_name(n.iter)
                if r:
                    m.setdefault(n.target.id, set()).add(r)
    return m


def assigned_names(stmts, impure=None):
    out = _assigned_names(stmts)
    if impure is not None:
        for s in stmts:
            for n in ast.walk(s):
                if isinstance(n, ast.Call) and impure(n):
                    if isinstance(n.func, ast.Attribute):
                        r = root_name(n.func.value)
                        if r:
                            out.add(r)
                    for a in list(n.args) + [k.value for k in n.keywords]:
                        r = root_name(a) if is_path(a) else None
                        if r:
                            out.add(r)
    amap = alias_roots(stmts)
    changed = True
    while changed:
        changed = False
        for nm in list(out):
            for r in amap.get(nm, ()):
                if r not in out:
                    out.add(r)
                    changed = True
    return out


def _assigned_names(stmts):
    out = set()
    for s in stmts:
        for n in ast.walk(s):
            if isinstance(n, (ast.Assign, ast.AugAssign, ast.AnnAssign)):
                tgts = n.targets if isinstance(n, ast.Assign) else [n.target]
                for t in tgts:
                    out |= names_in_target(t)
            elif isinstance(n, ast.For):
                out |= names_in_target(n.target)
            elif isinstance(n, ast.Call) and isinstance(n.func, ast.Attribute) and n.func.attr in MUTATORS:
                r = root_name(n.func.value)
                if r:
                    out.add(r)
            elif isinstance(n, ast.Delete):
                for t in n.targets:
                    r = root_name(t)
                    if r:
                        out.add(r)
    return out


MUTATORS = {"append", "extend", "remove", "pop", "update", "insert", "add", "clear", "sort", "reverse", "setdefault"}


def root_name(node):
    while isinstance(node, (ast.Attribute, ast.Subscript)):
        node = node.value
    return node.id if isinstance(node, ast.Name) else None


def names_in_target(t):
    if isinstance(t, ast.Name):
        return {t.id}
    if isinstance(t, (ast.Tuple, ast.List)):
        out = set()
        for e in t.elts:
            out |= names_in_target(e)
        return out
    if isinstance(t, (ast.Attribute, ast.Subscript)):
        r = root_name(t)
        return {r} if r else set()
    return set()


def ite_chain(pairs):
    """[(cond, value)...] -> nested If; values must be scalars or same-shape tuples"""
    if not pairs:
        raise Unsupported("empty ite chain")
    vals = [v for _, v in pairs]
    if all(isinstance(v, tuple) for v in vals) and len({len(v) for v in vals}) == 1:
        return tuple(ite_chain([(c, v[i]) for c, v in pairs]) for i in range(len(vals[0])))
    if all(isinstance(v, (FuncRef, ModRef)) for v in vals):
        return FuncChoice(pairs)
    if all(isinstance(v, NArr) for v in vals) and len({v.shape for v in vals}) == 1:
        return NArr(vals[0].shape, [ite_chain([(c, v.data[i]) for c, v in pairs]) for i in range(len(vals[0].data))])
    out = ops.term(vals[-1]) if not is_sym(vals[-1]) else vals[-1]
    for c, v in reversed(pairs[:-1]):
        out = z3.If(c, ops.term(v) if not is_sym(v) else v, out)
    return out


class FuncChoice:
    """a function value selected by symbolic conditions (dispatch table lookups)"""

    def __init__(self, pairs):
        self.pairs = pairs


def type_of(v):
    """descriptor type of a value (for havoc / fresh)"""
    if isinstance(v, bool) or isinstance(v, z3.BoolRef):
        return TBool
    if isinstance(v, int):
        return TInt
    if isinstance(v, F):
        return TReal
    if isinstance(v, z3.ArithRef):
        return TInt if v.is_int() else TReal
    if isinstance(v, (str, z3.SeqRef)):
        return TStr
    if is_sym(v):
        if v.sort() == TNode.sort:
            return TNode
        if v.sort() == TObj.sort:
            return TObj
        raise Unsupported(f"type of term of sort {v.sort()}")
    if isinstance(v, tuple):
        return TTuple(*[type_of(x) for x in v])
    if isinstance(v, NArr):
        return TVec(*v.shape)
    if isinstance(v, SMat):
        return TMat(v.rows)
    if isinstance(v, SList):
        return TList(v.t)
    if isinstance(v, CList):
        if not v:
            raise Unsupported("type of empty list literal (declare it in the contract)")
        return TList(type_of(v[0]))
    if isinstance(v, SSet):
        from .types import TSet
        return TSet(v.k)
    if isinstance(v, SDefaultDict):
        return TDefaultDict(v.k, v.v)
    if isinstance(v, SODict):
        return TODict(v.k, v.v)
    if isinstance(v, SDict):
        return TDict(v.k, v.v)
    if isinstance(v, Rec):
        return TRec(v.cls, **{f: type_of(x) for f, x in v.fields.items()})
    if isinstance(v, Opt):
        return TOpt(type_of(v.val))
    if isinstance(v, dict) and not any(is_sym(x) for x in v.values()):
        from .types import TConst
        return TConst(dict(v))
    if v is None:
        from .types import TConst
        return TConst(None)
    raise Unsupported(f"type of {type(v).__name__}")

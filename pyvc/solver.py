"""Discharge of proof obligations: z3 (Python API) first, cvc5 (binary, SMT-LIB text) for what z3
leaves unknown.  'unsat' == discharged, 'sat' == refuted with a model, 'unknown' == undecided."""
import os
import subprocess
import tempfile
import time
import z3
from . import ops

CVC5 = "/usr/bin/cvc5"


def frac_lemmas(facts):
    """lemma schemas for the uninterpreted fractional part (certified against Mathlib, see lean/Frac.lean):
       frac(-u) = if frac u = 0 then 0 else 1 - frac u          for every created pair
       frac(u + k) = frac(u)   (k integer)                       instantiated for syntactic u + ToReal(k)"""
    out = []
    terms = []
    seen = set()
    for u in facts.frac_terms:
        if u.get_id() not in seen:
            seen.add(u.get_id())
            terms.append(u)
    for u in terms:
        fu = ops.FRAC(u)
        nu = z3.simplify(-u)
        fn = ops.FRAC(nu)
        out.append(z3.And(fn >= 0, fn < 1))
        out.append(fn == z3.If(fu == 0, z3.RealVal(0), 1 - fu))
    # pairwise: if u - v is (provably) an integer the fractions agree  --  stated as an implication
    for i, u in enumerate(terms):
        for v in terms[i + 1:]:
            d = z3.simplify(u - v)
            out.append(z3.Implies(z3.IsInt(d), ops.FRAC(u) == ops.FRAC(v)))
    return out


def check(ob, facts, timeout_ms=10000, use_cvc5=True, extra=()):
    t0 = time.time()
    s = z3.Solver()
    s.set("timeout", timeout_ms)
    if facts is not None:
        for f in facts.items:
            s.add(f)
        for f in frac_lemmas(facts):
            s.add(f)
    for f in extra:
        s.add(f)
    for h in ob.hyps:
        s.add(h)
    s.add(z3.Not(ob.goal))
    r = s.check()
    ob.backend = "z3-" + z3.get_version_string()
    if r == z3.unsat:
        ob.status = "unsat"
    elif r == z3.sat:
        ob.status = "sat"
        ob.model = s.model()
    else:
        ob.status = "unknown"
        ob.reason = s.reason_unknown()
        if use_cvc5 and os.path.exists(CVC5):
            r2 = run_cvc5(s.to_smt2(), timeout_ms)
            if r2 in ("unsat", "sat"):
                ob.status = r2
                ob.backend = "cvc5-1.0.3"
    ob.time = time.time() - t0
    return ob.status


def run_cvc5(smt2, timeout_ms):
    with tempfile.NamedTemporaryFile("w", suffix=".smt2", delete=False, dir="/var/tmp") as fh:
        fh.write("(set-logic ALL)\n" + smt2)
        path = fh.name
    try:
        p = subprocess.run([CVC5, "--strings-exp", f"--tlimit={timeout_ms}", path], capture_output=True, text=True,
                           timeout=timeout_ms / 1000 + 5)
        out = p.stdout.strip().splitlines()
        return out[0] if out else "unknown"
    except subprocess.TimeoutExpired:
        return "unknown"
    finally:
        os.unlink(path)


def discharge(report, timeout_ms=10000, use_cvc5=True):
    for ob in report.obligations:
        check(ob, report.facts, timeout_ms, use_cvc5)
    return report

"""Discharge of proof obligations: z3 (Python API) first, cvc5 (binary, SMT-LIB text) for what z3
leaves unknown.  'unsat' == discharged, 'sat' == refuted with a model, 'unknown' == undecided."""
import os
import subprocess
import tempfile
import time
import z3
from . import ops

CVC5 = "/usr/bin/cvc5"


def frac_lemmas(facts):
    """lemma schemas for the uninterpreted fractional part (certified against Mathlib, see lean/Frac.lean):
       frac(-u) = if frac u = 0 then 0 else 1 - frac u          for every created pair
       frac(u + k) = frac(u)   (k integer)                       instantiated for syntactic u + ToReal(k)"""
    out = []
    terms = []
    seen = set()
    for u in facts.frac_terms:
        if u.get_id() not in seen:
            seen.add(u.get_id())
            terms.append(u)
    for u in terms:
        fu = ops.FRAC(u)
        nu = z3.simplify(-u)
        fn = ops.FRAC(nu)
        out.append(z3.And(fn >= 0, fn < 1))
        out.append(fn == z3.If(fu == 0, z3.RealVal(0), 1 - fu))
        out.append(z3.Implies(u >= 0, fu <= u))
        out.append(z3.Implies(nu >= 0, fn <= nu))
        out.append(z3.Implies(z3.And(u >= 0, u < 1), fu == u))
        out.append(z3.Implies(z3.And(nu >= 0, nu < 1), fn == nu))
    # pairwise: if u - v is (provably) an integer the fractions agree  --  stated as an implication
    for i, u in enumerate(terms):
        for v in terms[i + 1:]:
            d = z3.simplify(u - v)
            out.append(z3.Implies(z3.IsInt(d), ops.FRAC(u) == ops.FRAC(v)))
    return out


def check(ob, facts, timeout_ms=10000, use_cvc5=True, extra=()):
    """first try with let-definitions hidden (opaque): dropping hypotheses is sound and keeps the query small"""
    from .engine import LET_DEFS
    if any(h.get_id() in LET_DEFS for h in ob.hyps):
        full = ob.hyps
        ob.hyps = [h for h in full if h.get_id() not in LET_DEFS]
        st = _check(ob, facts, min(timeout_ms, 5000), False, extra)
        ob.hyps = full
        if st == "unsat":
            ob.backend += " (let-definitions hidden)"
            return st
    return _check(ob, facts, timeout_ms, use_cvc5, extra)


def _check(ob, facts, timeout_ms=10000, use_cvc5=True, extra=()):
    t0 = time.time()
    s = z3.Solver()
    s.set("timeout", timeout_ms)
    if facts is not None:
        for f in facts.items:
            s.add(f)
        for f in frac_lemmas(facts):
            s.add(f)
    for f in extra:
        s.add(f)
    for h in ob.hyps:
        s.add(h)
    s.add(z3.Not(ob.goal))
    r = s.check()
    ob.backend = "z3-" + z3.get_version_string()
    if r == z3.unsat:
        ob.status = "unsat"
    elif r == z3.sat:
        ob.status = "sat"
        ob.model = s.model()
    else:
        ob.status = "unknown"
        ob.reason = s.reason_unknown()
        if use_cvc5 and os.path.exists(CVC5):
            r2 = run_cvc5(s.to_smt2(), timeout_ms)
            if r2 in ("unsat", "sat"):
                ob.status = r2
                ob.backend = "cvc5-1.0.3"
        if ob.status == "unknown":
            m = refute_by_sampling(ob, facts)
            if m is not None:
                ob.status, ob.model = "sat", m
                ob.backend = "z3-sampling (model of the hypotheses under random hints; goal evaluated false in it)"
    ob.time = time.time() - t0
    return ob.status


def run_cvc5(smt2, timeout_ms):
    with tempfile.NamedTemporaryFile("w", suffix=".smt2", delete=False, dir="/var/tmp") as fh:
        fh.write("(set-logic ALL)\n" + smt2)
        path = fh.name
    try:
        p = subprocess.run([CVC5, "--strings-exp", f"--tlimit={timeout_ms}", path], capture_output=True, text=True,
                           timeout=timeout_ms / 1000 + 5)
        out = p.stdout.strip().splitlines()
        return out[0] if out else "unknown"
    except subprocess.TimeoutExpired:
        return "unknown"
    finally:
        os.unlink(path)


def discharge(report, timeout_ms=10000, use_cvc5=True):
    for ob in report.obligations:
        check(ob, report.facts, timeout_ms, use_cvc5)
    return report


# ---------------------------------------------------------------------------------------------
# refutation by guided sampling: a candidate model of the hypotheses is built under random value
# hints and the goal is *evaluated* in it; a hit is a genuine counter-model (validated by evaluation)

_POOL = ["-2", "-1", "-1/2", "1/3", "1/2", "1", "2", "3/5", "4/5", "-3/5", "3", "5/13", "12/13", "7/3", "-4/5", "1/7"]


def _atoms_for_hints(exprs):
    seen, out = set(), []
    stack = list(exprs)
    while stack:
        e = stack.pop()
        if e.get_id() in seen:
            continue
        seen.add(e.get_id())
        if z3.is_quantifier(e):
            stack.append(e.body())
            continue
        if z3.is_app(e):
            d = e.decl()
            if d.kind() == z3.Z3_OP_UNINTERPRETED and (z3.is_real(e) or z3.is_int(e)):
                if all(not _has_var(c) for c in e.children()):
                    out.append(e)
            elif d.kind() == z3.Z3_OP_UNINTERPRETED and z3.is_array(e) and e.num_args() == 0:
                rng = e.sort().range()
                if e.sort().domain() == z3.IntSort() and rng in (z3.RealSort(), z3.IntSort()):
                    for i in range(3):
                        out.append(e[i])
            stack.extend(e.children())
    return out


def _has_var(e):
    stack = [e]
    while stack:
        x = stack.pop()
        if z3.is_var(x):
            return True
        stack.extend(x.children())
    return False


def refute_by_sampling(ob, facts, tries=12, timeout_ms=3000, seed=0):
    import random
    rnd = random.Random(seed)
    base = list(ob.hyps) + (list(facts.items) + frac_lemmas(facts) if facts is not None else [])
    atoms = _atoms_for_hints(base + [ob.goal])
    if not atoms:
        return None
    for t in range(tries):
        s = z3.Solver()
        s.set("timeout", timeout_ms)
        s.set("random_seed", seed + t)
        for h in base:
            s.add(h)
        hints = {}
        for i, a in enumerate(atoms):
            if z3.is_int(a):
                v = z3.IntVal(rnd.choice([0, 1, 2, 3, 5]))
            else:
                v = z3.RealVal(rnd.choice(_POOL))
            p = z3.Bool(f"_hint{i}")
            s.add(z3.Implies(p, a == v))
            hints[p] = a
        active = list(hints)
        model = None
        for _ in range(6):
            r = s.check(*active)
            if r == z3.sat:
                model = s.model()
                break
            if r == z3.unsat:
                core = set(x.get_id() for x in s.unsat_core())
                if not core:
                    break
                # drop roughly half of the conflicting hints
                drop = [p for p in active if p.get_id() in core]
                rnd.shuffle(drop)
                dropset = set(x.get_id() for x in drop[:max(1, len(drop) // 2)])
                active = [p for p in active if p.get_id() not in dropset]
            else:
                active = active[:len(active) // 2]
        if model is None:
            continue
        g = ob.goal
        insts = [g]
        if z3.is_quantifier(g) and g.is_forall():
            insts = [z3.substitute_vars(g.body(), *[z3.IntVal(v) if g.var_sort(g.num_vars() - 1 - j) == z3.IntSort() else z3.RealVal(v)
                                                    for j in range(g.num_vars())]) for v in (0, 1, 2)]
        elif z3.is_and(g):
            insts = []
            for part in g.children():
                if z3.is_quantifier(part) and part.is_forall() and all(part.var_sort(j) == z3.IntSort() for j in range(part.num_vars())):
                    insts += [z3.substitute_vars(part.body(), *[z3.IntVal(v)] * part.num_vars()) for v in (0, 1, 2)]
                else:
                    insts.append(part)
        for inst in insts:
            val = model.eval(inst, model_completion=True)
            if z3.is_false(val):
                return model
    return None

"""Discharge of proof obligations: z3 (Python API) first, cvc5 (binary, SMT-LIB text) for what z3
leaves unknown.  'unsat' == discharged, 'sat' == refuted with a model, 'unknown' == undecided."""
import os
import subprocess
import tempfile
import time
import z3
from . import ops

# z3 5.1's Diophantine-equation handler (lp.dio) was seen to run for hours inside one query, ignoring the solver timeout (integer
# obligations of the C19 proof under load); the handler is an optional heuristic of the LIA procedure and is switched off
z3.set_param("lp.dio", False)
CVC5 = "/usr/bin/cvc5"


def frac_lemmas(facts):
    """lemma schemas for the uninterpreted fractional part (certified against Mathlib, see lean/Frac.lean):
       frac(-u) = if frac u = 0 then 0 else 1 - frac u          for every created pair
       frac(u + k) = frac(u)   (k integer)                       instantiated for syntactic u + ToReal(k)"""
    out = []
    terms = []
    seen = set()
    for u in facts.frac_terms:
        if u.get_id() not in seen:
            seen.add(u.get_id())
            terms.append(u)
    for u in terms:
        fu = ops.FRAC(u)
        nu = z3.simplify(-u)
        fn = ops.FRAC(nu)
        out.append(z3.And(fn >= 0, fn < 1))
        out.append(fn == z3.If(fu == 0, z3.RealVal(0), 1 - fu))
        out.append(z3.Implies(u >= 0, fu <= u))
        out.append(z3.Implies(nu >= 0, fn <= nu))
        out.append(z3.Implies(z3.And(u >= 0, u < 1), fu == u))
        out.append(z3.Implies(z3.And(nu >= 0, nu < 1), fn == nu))
    # pairwise: if u - v is (provably) an integer the fractions agree  --  stated as an implication
    for i, u in enumerate(terms):
        for v in terms[i + 1:]:
            d = z3.simplify(u - v)
            out.append(z3.Implies(z3.IsInt(d), ops.FRAC(u) == ops.FRAC(v)))
    return out


def _range_form(t):
    """t = [G ->] ForAll i. (lo(i) and i < N) -> B   ==>  (G or None, quantifier, lower-bound conjuncts, N, B)  else None"""
    guard = None
    if z3.is_implies(t):
        guard, t = t.arg(0), t.arg(1)
    if not (z3.is_quantifier(t) and t.is_forall() and t.num_vars() == 1 and t.var_sort(0) == z3.IntSort()):
        return None
    b = t.body()
    if not (z3.is_implies(b) and z3.is_and(b.arg(0))):
        return None
    lows, upper = [], None
    for c in b.arg(0).children():
        if z3.is_lt(c) and z3.is_var(c.arg(0)) and not _has_var(c.arg(1)):
            if upper is not None:
                return None
            upper = c.arg(1)
        else:
            lows.append(c)
    if upper is None:
        return None
    return guard, t, lows, upper, b.arg(1)


def range_extension(ob):
    """proof rule for 'holds for every index below k' invariants:   (forall i < N. B(i))  and  B(N)   entail   forall i < N + 1. B(i).
    If the goal (or each quantified conjunct of it) is such a range statement and a hypothesis states the same B for the range one shorter,
    the goal is replaced by the ground instance B(N) (and the lower-bound conjuncts at N).  Sufficient, never necessary: tried first,
    the full goal is still tried when it fails."""
    parts = list(ob.goal.children()) if z3.is_and(ob.goal) else [ob.goal]
    forms = [(_range_form(h), h) for h in ob.hyps]
    forms = [f for f, h in forms if f is not None]
    out, used = [], False
    for g in parts:
        gf = _range_form(g)
        done = False
        if gf is not None:
            gg, gq, glows, gup, gb = gf
            for hg, hq, hlows, hup, hb in forms:
                same_guard = (gg is None and hg is None) or (gg is not None and hg is not None and gg.eq(hg))
                if same_guard and hb.eq(gb) and len(hlows) == len(glows) and all(a.eq(b) for a, b in zip(hlows, glows)) \
                        and z3.is_true(z3.simplify(gup == hup + 1)):
                    inst = z3.substitute_vars(z3.Implies(z3.And(*glows) if glows else z3.BoolVal(True), gb), hup)
                    out.append(z3.Implies(gg, inst) if gg is not None else inst)
                    done = used = True
                    break
        if not done:
            out.append(g)
    return z3.And(*out) if used else None


def load_factor():
    """solver budgets are wall-clock limits: when more processes than cores are runnable they are stretched (at most 4x), so that a
    verdict does not flip to `undecided` merely because the machine is busy"""
    try:
        return min(4.0, max(1.0, os.getloadavg()[0] / float(os.cpu_count() or 1)))
    except OSError:
        return 1.0


def check(ob, facts, timeout_ms=10000, use_cvc5=True, extra=(), prefer=None):
    """first try with let-definitions hidden (opaque): dropping hypotheses is sound and keeps the query small.
    prefer: case-split conditions of a recorded conjunct-wise proof -- that proof is replayed first"""
    from .engine import LET_DEFS
    if prefer is not None:
        t0 = time.time()
        how = split_tactic(ob, facts, int(timeout_ms * 1.5), extra, prefer=tuple(prefer))
        if how is not None:
            ob.status, ob.model = "unsat", None
            ob.backend = "z3-" + z3.get_version_string() + " " + how + " (replayed from the recorded proof)"
            ob.time = time.time() - t0
            return ob.status
    reduced = range_extension(ob) if ob.kind.startswith("inv.preserved") or "inv.preserved" in ob.oid else None
    if reduced is not None:
        full_goal = ob.goal
        ob.goal = reduced
        try:
            st = _check(ob, facts, min(timeout_ms, 5000), False, extra, refute=False)
        finally:
            ob.goal = full_goal
        if st == "unsat":
            ob.backend += " (range-extension rule: instance at the new index)"
            return st
        ob.status, ob.model = "unknown", None
    if any(h.get_id() in LET_DEFS for h in ob.hyps):
        full = ob.hyps
        ob.hyps = [h for h in full if h.get_id() not in LET_DEFS]
        st = _check(ob, facts, min(timeout_ms, 5000), False, extra, refute=False)
        ob.hyps = full
        if st == "unsat":
            ob.backend += " (let-definitions hidden)"
            return st
    st = _check(ob, facts, timeout_ms, False, extra, refute=False)
    if st == "unknown":
        # z3 alone did not decide it: conjunct-wise proof with case splits, then the other back ends and the refuters
        t0, spent = time.time(), ob.time
        how = split_tactic(ob, facts, int(timeout_ms * 1.5), extra)
        if how is not None:
            ob.status, ob.model = "unsat", None
            ob.backend = "z3-" + z3.get_version_string() + " " + how
            ob.time = spent + time.time() - t0
            return ob.status
        spent += time.time() - t0
        st = _check(ob, facts, timeout_ms, use_cvc5, extra, skip_z3=True)
        ob.time += spent
    return st


def goal_parts(g, depth=0):
    """conjuncts of a goal, through conjunctions and (skolemised) universal quantifiers with an implication body; the goal is equivalent
    to the conjunction of the parts"""
    if z3.is_and(g):
        return [p for ch in g.children() for p in goal_parts(ch, depth)]
    if z3.is_eq(g) and g.num_args() == 2 and z3.is_bool(g.arg(0)):
        a, b = g.children()
        if z3.is_true(a):
            return goal_parts(b, depth)
        if z3.is_true(b):
            return goal_parts(a, depth)
    if z3.is_quantifier(g) and g.is_forall() and depth < 2:
        vs = [z3.FreshConst(g.var_sort(i), "sk") for i in range(g.num_vars())]
        inst = z3.substitute_vars(g.body(), *reversed(vs))
        if z3.is_implies(inst):
            a, b = inst.children()
            return [z3.Implies(a, p) for p in goal_parts(b, depth + 1)]
        return goal_parts(inst, depth + 1)
    return [g]


def ground_conditions(exprs, limit=8):
    """conditions of if-then-else terms without bound variables (candidates for a case split), most frequent first"""
    count, keep = {}, {}
    seen = set()

    def has_var(e):
        if z3.is_var(e):
            return True
        return any(has_var(c) for c in e.children())

    def walk(e, under_binder):
        if e.get_id() in seen:
            return
        seen.add(e.get_id())
        if z3.is_quantifier(e):
            walk(e.body(), True)
            return
        if z3.is_app(e) and e.decl().kind() == z3.Z3_OP_ITE:
            c = e.children()[0]
            if not (z3.is_true(c) or z3.is_false(c)) and not has_var(c):
                count[c.get_id()] = count.get(c.get_id(), 0) + 1
                keep[c.get_id()] = c
        for ch in e.children():
            walk(ch, under_binder)
    for e in exprs:
        walk(e, False)
    def size(e):
        return 1 + sum(size(c) for c in e.children())

    def rank(i):
        c = keep[i]
        arith = z3.is_app(c) and c.decl().kind() in (z3.Z3_OP_LE, z3.Z3_OP_LT, z3.Z3_OP_GE, z3.Z3_OP_GT) and not all(z3.is_int_value(x) for x in c.children())
        return (0 if arith else 1, size(c), -count[i])       # small comparisons of integer terms first (loop stage distinctions)
    return [keep[i] for i in sorted(keep, key=rank) if not (z3.is_app(keep[i]) and all(z3.is_int_value(x) for x in keep[i].children()))][:limit]


def _prove(hyps, facts, extra, goal, timeout_ms):
    s = z3.Solver()
    s.set("timeout", max(300, int(timeout_ms * load_factor())))
    if facts is not None:
        for f in facts.items:
            s.add(f)
        for f in frac_lemmas(facts):
            s.add(f)
    for f in extra:
        s.add(f)
    for h in hyps:
        s.add(h)
    s.add(z3.Not(goal))
    return s.check()


def split_tactic(ob, facts, timeout_ms, extra=(), prefer=()):
    """second attempt at an undecided obligation: the goal is split into its conjuncts, each proved on its own; a conjunct that stays
    undecided is proved by a case split on a ground if-then-else condition C of the hypotheses (H, C |- G and H, not C |- G).
    Returns a description of the proof or None."""
    deadline = time.time() + load_factor() * timeout_ms / 1000.0
    parts = goal_parts(ob.goal)
    cands = None
    splits = []
    per = max(1500, min(4000, timeout_ms // 8))
    for p in parts:
        if time.time() > deadline:
            return None
        r = _prove(ob.hyps, facts, extra, p, per)
        if r == z3.unsat:
            continue
        if r == z3.sat:
            return None
        if cands is None:
            cands = ground_conditions(list(ob.hyps) + [ob.goal], limit=8 if not prefer else 40)
            if prefer:
                first = [c for c in cands if str(c).replace("\n", " ")[:60] in prefer]
                cands = first + [c for c in cands if all(c is not f for f in first)][:8]
        done = False
        # a conjunct about a range [lo, t + 1): the new index t is the natural case distinction (range extension)
        local = []
        if z3.is_implies(p):
            ante = p.children()[0]
            for atom in (ante.children() if z3.is_and(ante) else [ante]):
                if z3.is_app(atom) and atom.decl().kind() in (z3.Z3_OP_LT, z3.Z3_OP_LE) and atom.num_args() == 2:
                    x, y = atom.children()
                    if z3.is_int(x) and z3.is_const(x) and z3.is_app(y) and y.decl().kind() == z3.Z3_OP_ADD:
                        top_ = z3.simplify(y - 1) if atom.decl().kind() == z3.Z3_OP_LT else z3.simplify(y)
                        local.append(x == top_)
        for c in local + list(cands):
            if time.time() > deadline:
                return None
            if _prove(list(ob.hyps) + [c], facts, extra, p, per) == z3.unsat and _prove(list(ob.hyps) + [z3.Not(c)], facts, extra, p, per) == z3.unsat:
                if any(c is l_ for l_ in local):
                    splits.append("the new index of a range")
                else:
                    splits.append(str(c).replace("\n", " ")[:60])
                    cands.remove(c)
                    cands.insert(0, c)        # the distinction that helped once is tried first for the next conjunct
                done = True
                break
        if not done:
            return None
    if len(parts) == 1 and not splits:
        return None
    ob.tactic_splits = sorted(set(splits))
    return f"(goal split into {len(parts)} conjuncts" + (f"; case split on {', '.join(sorted(set(splits)))}" if splits else "") + ")"


def _check(ob, facts, timeout_ms=10000, use_cvc5=True, extra=(), refute=True, skip_z3=False):
    t0 = time.time()
    try:
        if z3.is_true(z3.simplify(ob.goal)):
            # the goal is an identity after term normalisation (both sides built the same way): no search needed
            ob.status, ob.backend, ob.time = "unsat", "z3-simplify (goal normalises to true)", time.time() - t0
            return ob.status
    except z3.Z3Exception:
        pass
    # portfolio over random seeds: an unstable query that wanders off under one seed is usually immediate under another, so the
    # budget is spent as 40% + 15% + 15% + 30% with different seeds instead of one long run (the verdict is the first definite one)
    r = z3.unknown
    for share, seed in ((0.4, 0), (0.15, 7), (0.15, 23), (0.3, 101)):
        s = z3.Solver()
        s.set("timeout", max(500, int(timeout_ms * share * load_factor())))
        s.set("random_seed", seed)
        if seed:
            s.set("smt.random_seed", seed)
        if facts is not None:
            for f in facts.items:
                s.add(f)
            for f in frac_lemmas(facts):
                s.add(f)
        for f in extra:
            s.add(f)
        for h in ob.hyps:
            s.add(h)
        s.add(z3.Not(ob.goal))
        if skip_z3:
            break           # the query is only built (for the other back ends); z3 had its turn already
        r = s.check()
        if r != z3.unknown:
            break
    ob.backend = "z3-" + z3.get_version_string()
    if r == z3.unsat:
        ob.status = "unsat"
    elif r == z3.sat:
        ob.status = "sat"
        ob.model = s.model()
    else:
        ob.status = "unknown"
        ob.reason = s.reason_unknown()
        if use_cvc5 and os.path.exists(CVC5):
            r2 = run_cvc5(s.to_smt2(), timeout_ms)
            if r2 in ("unsat", "sat"):
                ob.status = r2
                ob.backend = "cvc5-1.0.3"
        if ob.status == "unknown" and refute:
            m = refute_numerically(ob, facts)
            if m is not None:
                ob.status, ob.model = "sat", m
                ob.backend = "numeric-sampling (random floating point inputs satisfying every hypothesis; goal evaluated false, tolerance 1e-6)"
        if ob.status == "unknown" and refute:
            m = refute_by_sampling(ob, facts)
            if m is not None:
                ob.status, ob.model = "sat", m
                ob.backend = "z3-sampling (model of the hypotheses under random hints; goal evaluated false in it)"
    ob.time = time.time() - t0
    return ob.status


def run_cvc5(smt2, timeout_ms):
    with tempfile.NamedTemporaryFile("w", suffix=".smt2", delete=False, dir="/var/tmp") as fh:
        fh.write("(set-logic ALL)\n" + smt2)
        path = fh.name
    try:
        p = subprocess.run([CVC5, "--strings-exp", f"--tlimit={timeout_ms}", path], capture_output=True, text=True,
                           timeout=timeout_ms / 1000 + 5)
        out = p.stdout.strip().splitlines()
        return out[0] if out else "unknown"
    except subprocess.TimeoutExpired:
        return "unknown"
    finally:
        os.unlink(path)


def discharge(report, timeout_ms=10000, use_cvc5=True, cores=None, record=None):
    """cores: {obligation key: [indices of the hypotheses that sufficed last time]}: tried first (any subset of the hypotheses is a
    sound set of premises; if it does not suffice any more the full query is run).  record: dict filled with fresh cores."""
    seen = {}
    misses = 0
    for ob in report.obligations:
        n = seen.get(ob.oid, 0)
        seen[ob.oid] = n + 1
        key = f"{ob.oid}#{n}"
        hint = (cores or {}).get(key) if misses < 6 else None     # a core file that stopped matching is abandoned quickly
        done = False
        prefer = None
        if isinstance(hint, dict):
            prefer, hint = hint.get("splits", []), None
        if hint is not None and all(isinstance(i, int) and 0 <= i < len(ob.hyps) for i in hint):
            full = ob.hyps
            ob.hyps = [full[i] for i in hint]
            try:
                st = _check(ob, report.facts, min(timeout_ms, 8000), False, (), refute=False)
            finally:
                ob.hyps = full
            if st == "unsat":
                ob.backend += " (premises replayed from the recorded proof core)"
                done = True
            else:
                ob.status, ob.model = None, None
                misses += 1
        if not done:
            check(ob, report.facts, timeout_ms, use_cvc5, prefer=prefer)
        if record is not None and ob.status == "unsat":
            if "goal split into" in (ob.backend or ""):
                record[key] = {"splits": list(getattr(ob, "tactic_splits", []))}      # conjunct-wise proof: its case splits are replayed
            else:
                core = hint if done else unsat_core_indices(ob, report.facts, timeout_ms)
                if core is not None:
                    record[key] = core
    return report


def unsat_core_indices(ob, facts, timeout_ms):
    """indices of hypotheses in one unsat core of (hyps, not goal); None if the core query does not finish"""
    try:
        if z3.is_true(z3.simplify(ob.goal)):
            return []
    except z3.Z3Exception:
        pass
    s = z3.Solver()
    s.set("timeout", max(timeout_ms, 20000))
    s.set("unsat_core", True)
    if facts is not None:
        for f in facts.items:
            s.add(f)
        for f in frac_lemmas(facts):
            s.add(f)
    tags = []
    for i, h in enumerate(ob.hyps):
        p = z3.Bool(f"_hyp{i}")
        tags.append(p)
        s.assert_and_track(h, p)
    s.add(z3.Not(ob.goal))
    if s.check() != z3.unsat:
        return None
    names = {str(c) for c in s.unsat_core()}
    return [i for i, p in enumerate(tags) if str(p) in names]


# ---------------------------------------------------------------------------------------------
# refutation by guided sampling: a candidate model of the hypotheses is built under random value
# hints and the goal is *evaluated* in it; a hit is a genuine counter-model (validated by evaluation)

_POOL = ["-2", "-1", "-1/2", "1/3", "1/2", "1", "2", "3/5", "4/5", "-3/5", "3", "5/13", "12/13", "7/3", "-4/5", "1/7"]


def _atoms_for_hints(exprs):
    seen, out = set(), []
    stack = list(exprs)
    while stack:
        e = stack.pop()
        if e.get_id() in seen:
            continue
        seen.add(e.get_id())
        if z3.is_quantifier(e):
            stack.append(e.body())
            continue
        if z3.is_app(e):
            d = e.decl()
            if d.kind() == z3.Z3_OP_UNINTERPRETED and (z3.is_real(e) or z3.is_int(e)):
                if all(not _has_var(c) for c in e.children()):
                    out.append(e)
            elif d.kind() == z3.Z3_OP_UNINTERPRETED and z3.is_array(e) and e.num_args() == 0:
                rng = e.sort().range()
                if e.sort().domain() == z3.IntSort() and rng in (z3.RealSort(), z3.IntSort()):
                    for i in range(3):
                        out.append(e[i])
            stack.extend(e.children())
    return out


def _has_var(e):
    stack = [e]
    while stack:
        x = stack.pop()
        if z3.is_var(x):
            return True
        stack.extend(x.children())
    return False


def refute_by_sampling(ob, facts, tries=12, timeout_ms=3000, seed=0, budget_s=40.0):
    import random
    rnd = random.Random(seed)
    if z3.is_quantifier(ob.goal) or any(z3.is_quantifier(h) or (z3.is_app(h) and any(z3.is_quantifier(c) for c in h.children())) for h in ob.hyps):
        budget_s = min(budget_s, 12.0)       # quantified obligations rarely yield to value hints
    deadline = time.time() + budget_s
    base = list(ob.hyps) + (list(facts.items) + frac_lemmas(facts) if facts is not None else [])
    atoms = _atoms_for_hints(base + [ob.goal])
    if not atoms:
        return None
    for t in range(tries):
        if time.time() > deadline:
            return None
        s = z3.Solver()
        s.set("timeout", timeout_ms)
        s.set("random_seed", seed + t)
        for h in base:
            s.add(h)
        hints = {}
        for i, a in enumerate(atoms):
            if z3.is_int(a):
                v = z3.IntVal(rnd.choice([0, 1, 2, 3, 5]))
            else:
                v = z3.RealVal(rnd.choice(_POOL))
            p = z3.Bool(f"_hint{i}")
            s.add(z3.Implies(p, a == v))
            hints[p] = a
        active = list(hints)
        model = None
        for _ in range(6):
            r = s.check(*active)
            if r == z3.sat:
                model = s.model()
                break
            if r == z3.unsat:
                core = set(x.get_id() for x in s.unsat_core())
                if not core:
                    break
                # drop roughly half of the conflicting hints
                drop = [p for p in active if p.get_id() in core]
                rnd.shuffle(drop)
                dropset = set(x.get_id() for x in drop[:max(1, len(drop) // 2)])
                active = [p for p in active if p.get_id() not in dropset]
            else:
                active = active[:len(active) // 2]
        if model is None:
            continue
        g = ob.goal
        insts = [g]
        if z3.is_quantifier(g) and g.is_forall() and all(g.var_sort(j) in (z3.IntSort(), z3.RealSort()) for j in range(g.num_vars())):
            insts = [z3.substitute_vars(g.body(), *[z3.IntVal(v) if g.var_sort(g.num_vars() - 1 - j) == z3.IntSort() else z3.RealVal(v)
                                                    for j in range(g.num_vars())]) for v in (0, 1, 2)]
        elif z3.is_and(g):
            insts = []
            for part in g.children():
                if z3.is_quantifier(part) and part.is_forall() and all(part.var_sort(j) == z3.IntSort() for j in range(part.num_vars())):
                    insts += [z3.substitute_vars(part.body(), *[z3.IntVal(v)] * part.num_vars()) for v in (0, 1, 2)]
                else:
                    insts.append(part)
        for inst in insts:
            val = model.eval(inst, model_completion=True)
            if z3.is_false(val):
                return model
    return None


# ---------------------------------------------------------------------------------------------
# refutation by numeric sampling: every free constant gets a random floating point / small integer value, every hypothesis is
# *evaluated* (uninterpreted sqrt, sin, ... by their mathematical meaning) and must hold, the goal must evaluate to false.
# Gives up (None) on anything it cannot evaluate -- it never guesses.  A hit is replayed on the real function afterwards.

def _free_symbols(exprs):
    consts, funcs, seen = {}, set(), set()
    stack = list(exprs)
    while stack:
        e = stack.pop()
        if e.get_id() in seen:
            continue
        seen.add(e.get_id())
        if z3.is_quantifier(e):
            stack.append(e.body())
            continue
        if z3.is_app(e):
            d = e.decl()
            if d.kind() == z3.Z3_OP_UNINTERPRETED:
                if e.num_args() == 0:
                    consts[d.name()] = e
                else:
                    funcs.add(d.name())
            stack.extend(e.children())
    return consts, funcs


def refute_numerically(ob, facts, tries=400, seed=0, budget_s=10.0):
    import random
    from . import numeval
    hyps = list(ob.hyps)
    if facts is not None:
        hyps += [f for f in facts.items if not z3.is_quantifier(f)]
    consts, funcs = _free_symbols(hyps + [ob.goal])
    if not funcs <= set(numeval.UF):
        return None
    if z3.is_quantifier(ob.goal) or any(z3.is_quantifier(h) for h in hyps):
        return None
    rnd = random.Random(seed)
    deadline = time.time() + budget_s
    tokens = {}
    for t in range(tries):
        if time.time() > deadline:
            return None
        assign, values = {}, {}

        def sample(sort):
            if sort == z3.RealSort():
                return rnd.choice([rnd.uniform(-2, 2), rnd.uniform(0.1, 1.5), float(rnd.randint(-2, 3)), rnd.uniform(-180, 180)])
            if sort == z3.IntSort():
                return rnd.randint(0, 4)
            if sort == z3.BoolSort():
                return rnd.random() < 0.85
            return None

        ok = True
        for name, c in consts.items():
            srt = c.sort()
            if srt.kind() == z3.Z3_ARRAY_SORT:
                rng = srt.range()
                if sample(rng) is None:
                    ok = False
                    break
                cache = {}
                assign[name] = numeval.Arr(lambda *i, cache=cache, rng=rng: cache[i] if i in cache else cache.setdefault(i, sample(rng)))
                assign[name].cache = cache
            elif name == "pi" and srt == z3.RealSort():
                import math
                assign[name] = math.pi
            elif srt.kind() == z3.Z3_UNINTERPRETED_SORT:
                assign[name] = tokens.setdefault(name, 1000 + len(tokens))
            else:
                v = sample(srt)
                if v is None:
                    ok = False
                    break
                assign[name] = v
            values[name] = assign[name]
        if not ok:
            return None
        try:
            if not all(numeval.evaluate(h, assign) is True for h in hyps):
                continue
            if numeval.evaluate(ob.goal, assign) is not False:
                continue
        except numeval.CannotEvaluate:
            return None
        except (ZeroDivisionError, ValueError, OverflowError):
            continue
        # a z3 model carrying these values (for the replay on the real function)
        s = z3.Solver()
        for name, c in consts.items():
            v = assign[name]
            if isinstance(v, numeval.Arr):
                # the whole array is pinned: the entries that were looked at, a neutral default elsewhere (False: finite dict domains)
                rng_sort = c.sort().range()
                arr = z3.K(c.sort().domain(), _val(rng_sort, 0))
                complete = c.sort().kind() == z3.Z3_ARRAY_SORT and len(next(iter(v.cache), (0,))) == 1
                for (i, x) in list(v.cache.items()):
                    idx = [_const_of(c.sort().domain(), y, consts, assign) for y in i]
                    if len(idx) != 1 or idx[0] is None:
                        complete = False
                        continue
                    arr = z3.Store(arr, idx[0], _val(rng_sort, x))
                if complete:
                    s.add(c == arr)
            elif c.sort().kind() == z3.Z3_UNINTERPRETED_SORT:
                continue
            else:
                s.add(c == _val(c.sort(), v))
        nodes = [c for c in consts.values() if c.sort().kind() == z3.Z3_UNINTERPRETED_SORT]
        bysort = {}
        for c in nodes:
            bysort.setdefault(c.sort().name(), []).append(c)
        for group in bysort.values():
            if len(group) > 1:
                s.add(z3.Distinct(*group))
        if s.check() == z3.sat:
            return s.model()
        return None
    return None


def _val(sort, v):
    from fractions import Fraction
    if sort == z3.RealSort():
        fr = Fraction(v).limit_denominator(10 ** 9)
        return z3.RealVal(f"{fr.numerator}/{fr.denominator}")
    if sort == z3.IntSort():
        return z3.IntVal(int(v))
    return z3.BoolVal(bool(v))


def _const_of(sort, y, consts, assign):
    if sort == z3.IntSort():
        return z3.IntVal(int(y))
    if sort == z3.RealSort():
        return _val(sort, y)
    if sort.kind() == z3.Z3_UNINTERPRETED_SORT:
        for name, c in consts.items():
            if c.sort() == sort and assign.get(name) == y:
                return c
    return None

"""Numeric evaluation of a z3 term under a concrete assignment (floats), used to replay counter-models of real-valued
contracts on the real code: the contract clause is evaluated on the *actual* floating point outcome with a tolerance.
Quantifiers over Int are evaluated on a small window (replay aid, not a proof step)."""
import math
import z3

TOL = 1e-6


class CannotEvaluate(Exception):
    pass


def close(a, b):
    return abs(a - b) <= TOL * (1.0 + abs(a) + abs(b))


class Arr:
    """array value: python function"""

    def __init__(self, fn):
        self.fn = fn

    def __call__(self, *idx):
        return self.fn(*idx)


UF = {
    "sqrt": lambda x: math.sqrt(x) if x >= 0 else float("nan"),
    "root6": lambda x: x ** (1.0 / 6.0) if x >= 0 else float("nan"),
    "frac": lambda x: x - math.floor(x),
    "sin": math.sin, "cos": math.cos,
    "arccos": lambda x: math.acos(max(-1.0, min(1.0, x))),
    "degrees": math.degrees, "exp": math.exp,
}


def evaluate(term, assign, window=range(-1, 9), bound=None):
    """assign: {constant name: python value (float/int/bool/str/Arr)}"""
    bound = dict(bound or {})

    def ev(t, env):
        if z3.is_quantifier(t) and t.is_lambda():
            n = t.num_vars()
            return Arr(lambda *idx, t=t, env=env, n=n: ev(t.body(), list(reversed(idx)) + env))
        if z3.is_quantifier(t):
            n = t.num_vars()
            names = [t.var_name(i) for i in range(n)]
            sorts = [t.var_sort(i) for i in range(n)]
            universe = assign.get("__universe__", {})      # finite universes for uninterpreted sorts (conformance tests on concrete data)
            if not all(s == z3.IntSort() or s.name() in universe for s in sorts) or n > 4:
                raise CannotEvaluate("quantifier over a sort without a finite universe")
            results = []

            def rec(i, vals):
                if i == n:
                    # de Bruijn: var 0 is the LAST bound variable
                    results.append(ev(t.body(), list(reversed(vals)) + env))
                    return
                for v in (window if sorts[i] == z3.IntSort() else universe[sorts[i].name()]):
                    rec(i + 1, vals + [v])
            rec(0, [])
            return all(results) if t.is_forall() else any(results)
        if z3.is_var(t):
            return env[z3.get_var_index(t)]
        if z3.is_int_value(t):
            return t.as_long()
        if z3.is_rational_value(t):
            return t.numerator_as_long() / t.denominator_as_long()
        if z3.is_algebraic_value(t):
            return float(t.approx(20).as_fraction())
        if z3.is_true(t):
            return True
        if z3.is_false(t):
            return False
        if z3.is_string_value(t):
            return t.as_string()
        k = t.decl().kind()
        ch = t.children()
        name = t.decl().name()
        if k == z3.Z3_OP_UNINTERPRETED:
            if not ch:
                if name in assign:
                    return assign[name]
                if name == "pi" and z3.is_real(t):
                    return math.pi
                raise CannotEvaluate(f"no value for {name}")
            if name in UF:
                return UF[name](*[float(ev(c, env)) for c in ch])
            if name in assign and callable(assign[name]):
                return assign[name](*[ev(c, env) for c in ch])
            raise CannotEvaluate(f"uninterpreted function {name}")
        if k == z3.Z3_OP_DT_CONSTRUCTOR:
            return tuple(ev(c, env) for c in ch)
        if k == z3.Z3_OP_DT_ACCESSOR:
            dt = ch[0].sort()
            for j in range(dt.constructor(0).arity()):
                if dt.accessor(0, j).eq(t.decl()):
                    return ev(ch[0], env)[j]
            raise CannotEvaluate("accessor of an unknown datatype")
        if k == z3.Z3_OP_ADD:
            return sum(ev(c, env) for c in ch)
        if k == z3.Z3_OP_SUB:
            v = ev(ch[0], env)
            for c in ch[1:]:
                v -= ev(c, env)
            return v
        if k == z3.Z3_OP_UMINUS:
            return -ev(ch[0], env)
        if k == z3.Z3_OP_MUL:
            v = 1
            for c in ch:
                v *= ev(c, env)
            return v
        if k in (z3.Z3_OP_DIV,):
            d = ev(ch[1], env)
            if d == 0:
                raise CannotEvaluate("division by zero")
            return ev(ch[0], env) / d
        if k == z3.Z3_OP_IDIV:
            return ev(ch[0], env) // ev(ch[1], env)
        if k == z3.Z3_OP_MOD:
            return ev(ch[0], env) % ev(ch[1], env)
        if k == z3.Z3_OP_TO_REAL:
            return float(ev(ch[0], env))
        if k == z3.Z3_OP_TO_INT:
            return math.floor(ev(ch[0], env))
        if k == z3.Z3_OP_IS_INT:
            v = ev(ch[0], env)
            return close(v, round(v))
        if k == z3.Z3_OP_ITE:
            return ev(ch[1], env) if ev(ch[0], env) else ev(ch[2], env)
        if k == z3.Z3_OP_AND:
            return all(ev(c, env) for c in ch)
        if k == z3.Z3_OP_OR:
            return any(ev(c, env) for c in ch)
        if k == z3.Z3_OP_NOT:
            return not ev(ch[0], env)
        if k == z3.Z3_OP_IMPLIES:
            return (not ev(ch[0], env)) or ev(ch[1], env)
        if k in (z3.Z3_OP_EQ, z3.Z3_OP_DISTINCT):
            a, b = ev(ch[0], env), ev(ch[1], env)
            if isinstance(a, Arr) or isinstance(b, Arr):
                # extensional equality over a finite index universe (conformance tests on concrete data only)
                universe = assign.get("__universe__", {})
                dom = ch[0].sort().domain() if isinstance(ch[0].sort(), z3.ArraySortRef) else None
                if dom is None or not (dom == z3.IntSort() or dom.name() in universe) or not (isinstance(a, Arr) and isinstance(b, Arr)):
                    raise CannotEvaluate("array equality")
                if isinstance(ch[0].sort().range(), z3.ArraySortRef):
                    raise CannotEvaluate("equality of arrays of arrays")
                idx = window if dom == z3.IntSort() else universe[dom.name()]
                same = all((close(a(i), b(i)) if isinstance(a(i), float) or isinstance(b(i), float) else a(i) == b(i)) for i in idx)
                return same if k == z3.Z3_OP_EQ else not same
            same = close(a, b) if isinstance(a, float) or isinstance(b, float) else a == b
            return same if k == z3.Z3_OP_EQ else not same
        if k in (z3.Z3_OP_LE, z3.Z3_OP_GE, z3.Z3_OP_LT, z3.Z3_OP_GT):
            a, b = ev(ch[0], env), ev(ch[1], env)
            slack = TOL * (1.0 + abs(a) + abs(b))
            return {z3.Z3_OP_LE: a <= b + slack, z3.Z3_OP_GE: a + slack >= b, z3.Z3_OP_LT: a < b - 0 * slack and not close(a, b) or a < b,
                    z3.Z3_OP_GT: a > b}[k]
        if k == z3.Z3_OP_SELECT:
            arr = ev(ch[0], env)
            idx = [ev(c, env) for c in ch[1:]]
            return arr(*idx)
        if k == z3.Z3_OP_STORE:
            arr = ev(ch[0], env)
            idx = tuple(ev(c, env) for c in ch[1:-1])
            val = ev(ch[-1], env)
            return Arr(lambda *i, arr=arr, idx=idx, val=val: val if tuple(i) == idx else arr(*i))
        if k == z3.Z3_OP_CONST_ARRAY:
            val = ev(ch[0], env)
            return Arr(lambda *i, val=val: val)
        raise CannotEvaluate(f"operator {t.decl()}")
    try:
        return ev(term, [])
    except (KeyError, IndexError, TypeError, ValueError, OverflowError) as e:
        raise CannotEvaluate(f"{type(e).__name__}: {e}")

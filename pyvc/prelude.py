"""Assumed contracts ("prelude") for builtins and dependencies: each entry is the model pyvc uses
in place of the library function.  Every entry actually used by a run is reported in
trusted_base; conformance tests against the installed libraries live in vlib/conformance.py.
"""
import z3
from fractions import Fraction
from .types import (NArr, SList, SDict, SSet, Rec, Opt, CList, FuncRef, ModRef, Unsupported, is_sym, R, I, B, S,
                    TInt, TReal, TBool, TObj, TTuple, slist_get, to_slist, key_sort_of)
from . import ops
from .ops import F, b_and, b_or, b_not, truth, values_equal

PRELUDE = {}
CONSTS = {}


def reg(*names):
    def deco(f):
        for n in names:
            PRELUDE[n] = f
        return f
    return deco


class Inf:
    """numpy.inf: only the 'undefined position' sentinel is supported"""

    def __repr__(self):
        return "INF"


INF = Inf()
class OpaqueVal:
    """a library value nothing is known about (numpy.mgrid grids, argument specifications): indexing it, taking an attribute of it
    or calling it gives an opaque value again; it can be stored, but any other use is unsupported"""

    def __repr__(self):
        return "OPAQUE"


OPAQUE = OpaqueVal()
CONSTS["numpy.inf"] = INF
CONSTS["numpy.mgrid"] = OPAQUE
CONSTS["numpy.pi"] = None   # filled lazily (uninterpreted positive constant)


# ------------------------------------------------------------------------------------------
# builtins

@reg("builtins.len")
def _len(eng, node, x):
    if isinstance(x, (tuple, list, dict, str)):
        return len(x)
    if isinstance(x, SList):
        return x.n
    if isinstance(x, NArr):
        return x.shape[0]
    if isinstance(x, z3.SeqRef):
        return z3.Length(x)
    if isinstance(x, Rec) and "nodes" in x.fields and isinstance(x.fields["nodes"], SDict):
        # number of nodes of a graph: the length of its (ghost) key sequence
        return eng.dict_keys(x.fields["nodes"]).n
    if type(x).__name__ == "SODict":
        return eng.dict_keys(x).n         # insertion-ordered dict: the length of its key list (representation invariant checked)
    raise Unsupported(f"len of {type(x).__name__}")


@reg("builtins.range")
def _range(eng, node, *a):
    from .engine import SymRange
    if all(isinstance(x, int) for x in a):
        return range(*a)
    if len(a) == 1:
        return SymRange(0, a[0])
    if len(a) == 2:
        return SymRange(a[0], a[1])
    raise Unsupported("symbolic range with step")


@reg("builtins.tuple")
def _tuple(eng, node, x=()):
    if isinstance(x, SList):
        return x          # immutable view of the same sequence
    return tuple(eng.concrete_or_fail(x))


@reg("builtins.list")
def _list(eng, node, x=()):
    if isinstance(x, SList):
        return x
    if type(x).__name__ == "DictValues" and isinstance(x.d, SDict):
        # list(d.values()): the values in key order
        keys = eng.dict_keys(x.d)
        i = z3.Int("_lv")
        return SList(x.d.v, keys.n, [z3.Lambda([i], c[keys.comps[0][i]]) for c in x.d.comps])
    if isinstance(x, SDict):
        return eng.dict_keys(x)
    return CList(eng.concrete_or_fail(x))


@reg("builtins.enumerate")
def _enumerate(eng, node, x, start=0):
    if isinstance(x, SList) and x.items is None:
        # symbolic length: the list of pairs (position + start, element)
        i = z3.Int("_en")
        return SList(TTuple(TInt, x.t), x.n, [z3.Lambda([i], i if (isinstance(start, int) and start == 0) else i + I(start))] + list(x.comps))
    return CList([(i + start, e) for i, e in enumerate(eng.concrete_or_fail(x))])


@reg("builtins.zip")
def _zip(eng, node, *xs):
    from .engine import SymRange, SListKeyed
    from .types import SODict
    if len(xs) == 2 and any(isinstance(x, (SymRange, SODict)) or (isinstance(x, SList) and x.items is None) for x in xs):
        # symbolic lengths: the list of pairs, as long as the shorter argument
        seqs = [eng.as_sequence(x) for x in xs]
        n = z3.If(seqs[0].n <= seqs[1].n, seqs[0].n, seqs[1].n)
        t = TTuple(seqs[0].t, seqs[1].t)
        if isinstance(xs[0], SODict):
            d = xs[0]
            out = SListKeyed(t, n, list(seqs[0].comps) + list(seqs[1].comps))
            out.member = lambda x: z3.And(z3.Select(d.dom, x), d.pos[x] < n)      # noqa: E731
            out.inv = lambda x: d.pos[x]                                          # noqa: E731
            return out
        return SList(t, n, list(seqs[0].comps) + list(seqs[1].comps))
    cols = [eng.concrete_or_fail(x) for x in xs]
    return CList(list(zip(*cols)))


@reg("builtins.reversed")
def _reversed(eng, node, x):
    return CList(list(reversed(eng.concrete_or_fail(x))))


@reg("builtins.all")
def _all(eng, node, x):
    if isinstance(x, NArr):
        return b_and(*[truth(e) for e in x.data])
    if isinstance(x, SList) and len(x.comps) == 1 and x.comps[0].sort().range() == z3.BoolSort():
        i = z3.Int("_alli")
        return z3.ForAll([i], z3.Implies(z3.And(0 <= i, i < x.n), x.comps[0][i]))
    return b_and(*[truth(e) for e in eng.concrete_or_fail(x)])


@reg("builtins.any")
def _any(eng, node, x):
    if isinstance(x, NArr):
        return b_or(*[truth(e) for e in x.data])
    if isinstance(x, SList) and len(x.comps) == 1 and x.comps[0].sort().range() == z3.BoolSort():
        i = z3.Int("_anyi")
        return z3.Exists([i], z3.And(0 <= i, i < x.n, x.comps[0][i]))
    return b_or(*[truth(e) for e in eng.concrete_or_fail(x)])


@reg("builtins.sum")
def _sum(eng, node, x, start=0):
    out = start
    for e in eng.concrete_or_fail(x):
        out = ops.binop("+", out, e, eng.facts)
    return out


def _minmax(eng, items, pick_less):
    items = list(items)
    if not items:
        from .engine import PyRaise
        raise PyRaise("ValueError")
    out = items[0]
    for e in items[1:]:
        c = ops.compare("<" if pick_less else ">", e, out)
        if isinstance(c, bool):
            out = e if c else out
        else:
            if isinstance(out, tuple):
                from .engine import ite_chain
                out = ite_chain([(c, e), (z3.BoolVal(True), out)])
            else:
                out = z3.If(c, ops.term(e), ops.term(out)) if not (ops.is_float(e) or ops.is_float(out)) else z3.If(c, ops.real(e), ops.real(out))
    return out


@reg("builtins.min")
def _min(eng, node, *a, **kw):
    if kw:
        raise Unsupported("min with key")
    return _minmax(eng, eng.concrete_or_fail(a[0]) if len(a) == 1 else a, True)


@reg("builtins.max")
def _max(eng, node, *a, **kw):
    if kw:
        raise Unsupported("max with key")
    return _minmax(eng, eng.concrete_or_fail(a[0]) if len(a) == 1 else a, False)


@reg("builtins.abs", "numpy.abs", "numpy.absolute")
def _abs(eng, node, x):
    if isinstance(x, NArr):
        return NArr(x.shape, [_abs(eng, node, e) for e in x.data])
    if isinstance(x, int):
        return abs(x)
    if isinstance(x, F):
        return F(abs(x.q))
    return z3.If(x >= 0, x, -x)


@reg("builtins.str.strip")
def _str_strip(eng, node, x, chars=None):
    if isinstance(x, str):
        return x.strip(chars) if chars is None or isinstance(chars, str) else x
    if isinstance(x, Rec) and x.cls == "NumToken":
        return x            # int() ignores surrounding blanks: the token stands for the same number
    raise Unsupported("str.strip on this value")


@reg("builtins.int")
def _int(eng, node, x=0):
    if isinstance(x, Rec) and x.cls == "NumToken":
        return x.fields["value"]      # a piece of text modelled by the integer it denotes
    if isinstance(x, bool):
        return int(x)
    if isinstance(x, int):
        return x
    if isinstance(x, F):
        return int(x.q)       # truncation toward zero
    if isinstance(x, z3.ArithRef) and x.is_int():
        return x
    if isinstance(x, z3.ArithRef):
        return z3.If(x >= 0, z3.ToInt(x), -z3.ToInt(-x))
    if isinstance(x, str):
        try:
            return int(x)
        except ValueError:
            from .engine import PyRaise
            raise PyRaise("ValueError", node)
    if isinstance(x, z3.SeqRef):
        ok = PARSE_INT_OK(x)
        eng.may_raise("ValueError", z3.Not(ok), node, "int(str)")
        return PARSE_INT(x)
    raise Unsupported(f"int({type(x).__name__})")


PARSE_INT = z3.Function("parse_int", z3.StringSort(), z3.IntSort())
PARSE_INT_OK = z3.Function("parse_int_ok", z3.StringSort(), z3.BoolSort())
PARSE_REAL = z3.Function("parse_real", z3.StringSort(), z3.RealSort())
PARSE_REAL_OK = z3.Function("parse_real_ok", z3.StringSort(), z3.BoolSort())


@reg("builtins.float", "numpy.float64")
def _float(eng, node, x=0):
    if isinstance(x, int):
        return F(x)
    if isinstance(x, F):
        return x
    if isinstance(x, z3.ArithRef):
        return R(x)
    if isinstance(x, str):
        try:
            return F(Fraction(x))
        except (ValueError, ZeroDivisionError):
            from .engine import PyRaise
            raise PyRaise("ValueError", node)
    if isinstance(x, z3.SeqRef):
        eng.may_raise("ValueError", z3.Not(PARSE_REAL_OK(x)), node, "float(str)")
        return PARSE_REAL(x)
    raise Unsupported(f"float({type(x).__name__})")


@reg("builtins.str")
def _str(eng, node, x=""):
    if isinstance(x, (str, z3.SeqRef)):
        return x
    if isinstance(x, int):
        return str(x)
    if isinstance(x, z3.ArithRef) and x.is_int():
        return z3.If(x >= 0, z3.IntToStr(x), z3.Concat(z3.StringVal("-"), z3.IntToStr(-x)))
    return z3.FreshConst(z3.StringSort(), "str")


@reg("builtins.bool")
def _bool(eng, node, x=False):
    return truth(x)


@reg("builtins.print")
def _print(eng, node, *a, **k):
    return None


@reg("inspect.getfullargspec")
def _getfullargspec(eng, node, f):
    return OPAQUE


@reg("builtins.isinstance")
def _isinstance(eng, node, x, cls):
    if isinstance(x, Opt):
        # an optional value: None or a value of the underlying type
        names_ = [getattr(c, "name", None) for c in (cls if isinstance(cls, tuple) else (cls,))]
        if names_ == ["NoneType"]:
            return x.none
        if eng.choose(x.none):
            return "NoneType" in names_
        return _isinstance(eng, node, x.val, cls)
    names = [c.dotted.split(".")[-1] if isinstance(c, ModRef) else getattr(c, "name", None) for c in (cls if isinstance(cls, tuple) else (cls,))]
    kind = pytype_name(x)
    if kind is None:
        raise Unsupported(f"isinstance on {type(x).__name__}")
    if kind == "bool" and "int" in names:
        return True
    return kind in names


def pytype_name(x):
    if isinstance(x, OpaqueVal):
        return "object"
    if isinstance(x, (bool, z3.BoolRef)):
        return "bool"
    if isinstance(x, int) or (isinstance(x, z3.ArithRef) and x.is_int()):
        return "int"
    if isinstance(x, F) or isinstance(x, z3.ArithRef):
        return "float"
    if isinstance(x, (str, z3.SeqRef)):
        return "str"
    if isinstance(x, tuple):
        return "tuple"
    if isinstance(x, (CList, SList)):
        return "list"
    if isinstance(x, (dict, SDict)):
        return "dict"
    if isinstance(x, NArr):
        return "ndarray"
    if x is None:
        return "NoneType"
    return None


@reg("builtins.type")
def _type(eng, node, x):
    from .engine import PyType
    n = pytype_name(x)
    if n is None:
        raise Unsupported(f"type() of {type(x).__name__}")
    return PyType(n)


@reg("builtins.sorted")
def _sorted(eng, node, x, key=None, reverse=False):
    from .engine import BoundMethod
    if isinstance(x, SDict) and isinstance(key, BoundMethod) and key.obj is x and key.name == "get" and not reverse \
            and len(x.k.sorts()) == 1 and len(x.v.sorts()) == 1:
        # sorted(d, key=d.get): the keys of d ordered by their values -- a ghost permutation of the key set, non-decreasing in the value
        seq = eng.dict_keys(x)
        i, j = z3.Int("_si"), z3.Int("_sj")
        arr = seq.comps[0]
        val = x.comps[0]
        eng.assume(z3.ForAll([i, j], z3.Implies(z3.And(0 <= i, i < j, j < seq.n), val[arr[i]] <= val[arr[j]])))
        eng.frame.env["_sorted_pos"] = eng.last_dict_pos        # ghost: position of a key in the sorted list
        return seq
    items = eng.concrete_or_fail(x)
    if key is None and all(ops.is_concrete_num(i) or isinstance(i, str) for i in items):
        ks = [ops.q(i) if ops.is_concrete_num(i) else i for i in items]
        order = sorted(range(len(items)), key=lambda j: ks[j], reverse=bool(reverse))
        return CList([items[j] for j in order])
    raise Unsupported("sorted on symbolic data")


@reg("builtins.frozenset", "builtins.set")
def _frozenset(eng, node, x=()):
    items = eng.concrete_or_fail(x)
    return FSet(items)


class FSet(tuple):
    """small concrete-cardinality (multi)set value: equality is set equality"""


@reg("builtins.dict")
def _dict(eng, node, x=None, **kw):
    if x is None:
        return dict(kw)
    if isinstance(x, dict):
        return dict(x, **kw)
    from .engine import SListKeyed
    if isinstance(x, SListKeyed) and not kw and len(x.t.ts) == 2:
        # dict(zip(keys of an ordered dict, values)): the keys are distinct, entry of key x sits at index inv(x)
        kt, vt = x.t.ts
        nk = len(kt.sorts())
        kx = z3.Const("_dk", key_sort_of(kt))
        val = vt.unflat([c[x.inv(kx)] for c in x.comps[nk:]])
        return SDict(kt, vt, z3.Lambda([kx], x.member(kx)), [z3.Lambda([kx], f) for f in vt.flat(val)])
    raise Unsupported("dict() of symbolic data")


@reg("builtins.map")
def _map(eng, node, f, x):
    return CList([eng.call(f, [e], {}, node) for e in eng.concrete_or_fail(x)])


ROUND = {}


@reg("builtins.round")
def _round(eng, node, x, nd=None):
    """round(x, n) of a symbolic real, n a literal: a function of x that is a multiple of 10**-n within half a unit of x (ties: either side)"""
    if isinstance(nd, int) and 0 <= nd <= 9 and isinstance(x, z3.ArithRef):
        f = ROUND.get(nd)
        if f is None:
            f = ROUND[nd] = z3.Function(f"round{nd}", z3.RealSort(), z3.RealSort())
        r = f(R(x))
        scale = 10 ** nd
        eng.facts.add(z3.And(z3.IsInt(r * scale), (R(x) - r) * (2 * scale) <= 1, (r - R(x)) * (2 * scale) <= 1))
        return r
    raise Unsupported("round")


@reg("builtins.next", "builtins.iter")
def _next(eng, node, *a):
    raise Unsupported("iterator protocol")


@reg("polyply.jit")
def _jit(eng, node, f):
    return f      # numba absent: identity (assumption A-JIT)


# ------------------------------------------------------------------------------------------
# numpy

def as_narr(eng, x):
    if isinstance(x, NArr):
        return x
    if isinstance(x, (tuple, list)):
        items = list(x)
        if items and all(isinstance(i, (tuple, list, NArr)) for i in items):
            rows = [as_narr(eng, i) for i in items]
            if len({r.shape for r in rows}) != 1:
                raise Unsupported("ragged array")
            return NArr((len(rows),) + rows[0].shape, [e for r in rows for e in r.data])
        return NArr((len(items),), items)
    raise Unsupported(f"array from {type(x).__name__}")


@reg("numpy.array", "numpy.asarray")
def _array(eng, node, x, dtype=None):
    if isinstance(x, SList) and x.items is None and type(x.t).__name__ == "TVec":
        return x            # an array of symbolically many rows: kept as the list of its rows
    if type(x).__name__ == "DictValues" and isinstance(x.d, SDict) and type(x.d.v).__name__ == "TVec":
        # np.array(list(d.values())) of a dict of vectors: the rows in key order
        keys = eng.dict_keys(x.d)
        i = z3.Int("_lv")
        return SList(x.d.v, keys.n, [z3.Lambda([i], c[keys.comps[0][i]]) for c in x.d.comps])
    a = as_narr(eng, x)
    if any(e is INF for e in a.data):
        if all(e is INF for e in a.data):
            return Undef(a.shape)
        raise Unsupported("array mixing inf and finite values")
    return a


class Undef:
    """the all-inf vector used by polyply as 'position not defined'"""

    def __init__(self, shape):
        self.shape = shape


@reg("numpy.zeros")
def _zeros(eng, node, shape, dtype=None):
    shape = (shape,) if isinstance(shape, int) else tuple(shape)
    if len(shape) == 2 and isinstance(shape[0], int) and is_sym(shape[1]):
        from .types import SMat
        return SMat(shape[0], shape[1], [z3.K(z3.IntSort(), z3.RealVal(0)) for _ in range(shape[0])])
    if not all(isinstance(s, int) for s in shape):
        raise Unsupported("zeros with symbolic shape")
    n = 1
    for s in shape:
        n *= s
    return NArr(shape, [F(0)] * n)


@reg("numpy.dot")
def _dot(eng, node, a, b):
    a, b = as_narr(eng, a), as_narr(eng, b)
    if len(a.shape) == 1 and a.shape == b.shape:
        out = F(0)
        for x, y in zip(a.data, b.data):
            out = ops.arith("+", out, ops.arith("*", x, y, eng.facts), eng.facts)
        return out
    raise Unsupported("dot of non-vectors")


@reg("numpy.cross")
def _cross(eng, node, a, b):
    a, b = as_narr(eng, a), as_narr(eng, b)
    if a.shape != (3,) or b.shape != (3,):
        raise Unsupported("cross of non-3-vectors")
    m = lambda x, y: ops.arith("*", x, y, eng.facts)       # noqa: E731
    s = lambda x, y: ops.arith("-", x, y, eng.facts)       # noqa: E731
    a0, a1, a2 = a.data
    b0, b1, b2 = b.data
    return NArr((3,), [s(m(a1, b2), m(a2, b1)), s(m(a2, b0), m(a0, b2)), s(m(a0, b1), m(a1, b0))])


@reg("numpy.linalg.norm")
def _norm(eng, node, a, **kw):
    if kw:
        raise Unsupported("norm with axis")
    a = as_narr(eng, a)
    if len(a.shape) != 1:
        raise Unsupported("norm of a matrix")
    return ops.sqrt_term(_dot(eng, node, a, a), eng.facts)


@reg("numpy.sqrt")
def _sqrt(eng, node, x):
    if isinstance(x, NArr):
        return NArr(x.shape, [_sqrt(eng, node, e) for e in x.data])
    eng.may_raise("ValueError", ops.compare("<", x, 0), node, "sqrt of negative")
    return ops.sqrt_term(x, eng.facts)


@reg("numpy.sign")
def _sign(eng, node, x):
    if isinstance(x, NArr):
        return NArr(x.shape, [_sign(eng, node, e) for e in x.data])
    if ops.is_concrete_num(x):
        v = ops.q(x)
        return F(1 if v > 0 else (-1 if v < 0 else 0)) if isinstance(x, F) else (1 if v > 0 else (-1 if v < 0 else 0))
    r = ops.real(x)
    return z3.If(r > 0, z3.RealVal(1), z3.If(r < 0, z3.RealVal(-1), z3.RealVal(0)))


@reg("numpy.all")
def _npall(eng, node, x, **kw):
    if kw:
        raise Unsupported("np.all with axis")
    if isinstance(x, NArr):
        return b_and(*[truth(e) for e in x.data])
    if isinstance(x, (tuple, list)):
        return b_and(*[truth(e) for e in x])
    return truth(x)


@reg("numpy.any")
def _npany(eng, node, x, **kw):
    if kw:
        raise Unsupported("np.any with axis")
    if isinstance(x, NArr):
        return b_or(*[truth(e) for e in x.data])
    if isinstance(x, (tuple, list)):
        return b_or(*[truth(e) for e in x])
    return truth(x)


@reg("numpy.vstack")
def _vstack(eng, node, xs):
    rows = [as_narr(eng, x) for x in eng.concrete_or_fail(xs)]
    if not all(len(r.shape) == 1 and r.shape == rows[0].shape for r in rows):
        raise Unsupported("vstack of non-vectors")
    return NArr((len(rows), rows[0].shape[0]), [e for r in rows for e in r.data])


def _reduce_axis0(eng, a, less):
    r, c = a.shape
    out = []
    for j in range(c):
        col = [a.data[i * c + j] for i in range(r)]
        out.append(_minmax(eng, col, less))
    return NArr((c,), out)


@reg("numpy.min", "numpy.amin")
def _npmin(eng, node, a, axis=None):
    a = as_narr(eng, a)
    if axis is None:
        return _minmax(eng, a.data, True)
    if axis == 0 and len(a.shape) == 2:
        return _reduce_axis0(eng, a, True)
    raise Unsupported("np.min axis")


@reg("numpy.max", "numpy.amax")
def _npmax(eng, node, a, axis=None):
    a = as_narr(eng, a)
    if axis is None:
        return _minmax(eng, a.data, False)
    if axis == 0 and len(a.shape) == 2:
        return _reduce_axis0(eng, a, False)
    raise Unsupported("np.max axis")


@reg("numpy.sum")
def _npsum(eng, node, a, axis=None):
    a = as_narr(eng, a)
    if axis is None:
        out = F(0)
        for x in a.data:
            out = ops.arith("+", out, x, eng.facts)
        return out
    raise Unsupported("np.sum axis")


@reg("numpy.average", "numpy.mean")
def _average(eng, node, a, axis=None, weights=None):
    a = as_narr(eng, a)
    if weights is not None and axis == 0 and len(a.shape) == 2:
        # numpy: sum_i w_i * row_i / sum_i w_i  (ZeroDivisionError when the weights sum to zero)
        w = as_narr(eng, weights)
        r, c = a.shape
        if w.shape != (r,):
            raise Unsupported("weights shape")
        tot = F(0)
        for x in w.data:
            tot = ops.arith("+", tot, x, eng.facts)
        eng.div_guard(tot, node)
        out = []
        for j in range(c):
            acc = F(0)
            for i in range(r):
                acc = ops.arith("+", acc, ops.arith("*", a.data[i * c + j], w.data[i], eng.facts), eng.facts)
            out.append(ops.arith("/", acc, tot, eng.facts))
        return NArr((c,), out)
    if weights is not None:
        raise Unsupported("weighted average form")
    if axis == 0 and len(a.shape) == 2:
        r, c = a.shape
        if r == 0:
            raise Unsupported("average of empty array")
        out = []
        for j in range(c):
            s = F(0)
            for i in range(r):
                s = ops.arith("+", s, a.data[i * c + j], eng.facts)
            out.append(ops.arith("/", s, r, eng.facts))
        return NArr((c,), out)
    raise Unsupported("np.average form")


@reg("numpy.sin")
def _sin(eng, node, x):
    x = ops.real(x)
    eng.facts.add(ops.SIN(x) * ops.SIN(x) + ops.COS(x) * ops.COS(x) == 1)
    return ops.SIN(x)


@reg("numpy.cos")
def _cos(eng, node, x):
    x = ops.real(x)
    eng.facts.add(ops.SIN(x) * ops.SIN(x) + ops.COS(x) * ops.COS(x) == 1)
    return ops.COS(x)


@reg("numpy.arccos")
def _arccos(eng, node, x):
    return ops.ARCCOS(ops.real(x))


DEGREES = z3.Function("degrees", z3.RealSort(), z3.RealSort())


@reg("numpy.degrees")
def _degrees(eng, node, x):
    return DEGREES(ops.real(x))


@reg("numpy.exp")
def _exp(eng, node, x):
    x = ops.real(x)
    eng.facts.add(ops.EXP(x) > 0)
    return ops.EXP(x)


# ------------------------------------------------------------------------------------------
# random: every draw is an arbitrary value of the documented range (havoc, not sampling)

@reg("random.randint")
def _randint(eng, node, a, b):
    r = eng.fresh("randint", TInt)
    eng.assume(z3.And(I(a) <= r, r <= I(b)))
    return r


@reg("random.uniform")
def _uniform(eng, node, a, b):
    r = eng.fresh("uniform", TReal)
    a, b = ops.real(a), ops.real(b)
    eng.assume(z3.Or(z3.And(a <= r, r <= b), z3.And(b <= r, r <= a)))
    return r


@reg("random.choice")
def _choice(eng, node, xs):
    if isinstance(xs, SList):
        i = eng.fresh("choice_idx", TInt)
        eng.may_raise("IndexError", xs.n == 0, node, "choice from empty sequence")
        eng.assume(z3.And(0 <= i, i < xs.n))
        return slist_get(xs, i)
    items = eng.concrete_or_fail(xs)
    if not items:
        from .engine import PyRaise
        raise PyRaise("IndexError", node)
    which = eng.choose_nd(len(items))
    return items[which]


@reg("numpy.isclose", "math.isclose")
def _isclose(eng, node, a, b, rtol=None, atol=None, rel_tol=None, abs_tol=None):
    # numpy.isclose(a, b): |a - b| <= atol + rtol * |b|   (defaults rtol=1e-5, atol=1e-8), exact over the reals
    from fractions import Fraction
    numpy_form = rel_tol is None and abs_tol is None
    rt = rtol if rtol is not None else (F(Fraction(1, 100000)) if numpy_form else (rel_tol if rel_tol is not None else F(Fraction(1, 10**9))))
    at = atol if atol is not None else (F(Fraction(1, 10**8)) if numpy_form else (abs_tol if abs_tol is not None else F(0)))
    if not numpy_form:
        raise Unsupported("math.isclose")
    x, y = ops.real(a), ops.real(b)
    d = z3.If(x - y >= 0, x - y, y - x)
    ay = z3.If(y >= 0, y, -y)
    return d <= ops.real(at) + ops.real(rt) * ay


@reg("numpy.delete")
def _np_delete(eng, node, arr, index, axis=None):
    """np.delete(rows, i, axis=0) on an (n,3) array held as a list of rows: the row at index i is removed"""
    if not isinstance(arr, SList) or axis != 0:
        raise Unsupported("np.delete form")
    i = I(index)
    eng.may_raise("IndexError", b_not(z3.And(i >= -arr.n, i < arr.n)), node, "np.delete index")
    i = z3.If(i < 0, i + arr.n, i)
    k = z3.Int("_del")
    return SList(arr.t, arr.n - 1, [z3.Lambda([k], z3.If(k < i, c[k], c[k + 1])) for c in arr.comps])


class ARange:
    """numpy.arange(start, stop, step) with symbolic bounds (only membership is supported)"""

    def __init__(self, start, stop, step):
        self.start, self.stop, self.step = start, stop, step


@reg("numpy.arange")
def _arange(eng, node, *a, dtype=None):
    if len(a) == 1:
        start, stop, step = 0, a[0], 1
    elif len(a) == 2:
        start, stop, step = a[0], a[1], 1
    else:
        start, stop, step = a
    if not (ops.is_concrete_num(step) and ops.q(step) == 1):
        raise Unsupported("arange with a step other than 1")
    return ARange(start, stop, step)


@reg("scipy.spatial.KDTree", "scipy.spatial.cKDTree")
def _kdtree(eng, node, data, boxsize=None, balanced_tree=True, compact_nodes=True, leafsize=10):
    """assumed contract: a KD-tree IS the sequence of its data rows (which must all be finite); queries are modelled in the
    contracts that use them.  Value: record kdtree(n, pts)"""
    from .types import TOpt as _TOpt, TVec as _TVec
    j = z3.Int("_kd")
    if isinstance(data, NArr):
        rows = data.rows() if len(data.shape) == 2 else [data]
        pts = to_slist(CList(rows), _TVec(3))
        return Rec("kdtree", {"n": len(rows), "pts": pts})
    if isinstance(data, SList) and isinstance(data.t, _TOpt):
        eng.may_raise("ValueError", b_not(z3.ForAll([j], z3.Implies(z3.And(0 <= j, j < data.n), z3.Not(data.comps[0][j])))), node,
                      "KDTree data must be finite")
        return Rec("kdtree", {"n": data.n, "pts": SList(data.t.t, data.n, data.comps[1:])})
    if isinstance(data, SList):
        return Rec("kdtree", {"n": data.n, "pts": data})
    raise Unsupported("KDTree data form")


class ColView:
    """positions[:, c] of an (N,3) array held as a list of optional rows"""

    def __init__(self, rows, col):
        self.rows, self.col = rows, col


class DefMask:
    """boolean mask `positions[:, 0] != np.inf`: True exactly for the defined rows"""

    def __init__(self, rows):
        self.rows = rows


@reg("numpy.where")
def _np_where(eng, node, mask, *choice):
    """np.where(mask)[0]: the increasing list of the indices where the mask holds;
    np.where(mask, a, b): the elementwise choice (concrete shape; scalars broadcast)"""
    if len(choice) == 2 and type(mask).__name__ == "NArr":
        NArr = type(mask)
        def _at(v, k):
            if type(v).__name__ == "NArr":
                if v.shape != mask.shape:
                    raise Unsupported("np.where with different shapes")
                return v.data[k]
            if isinstance(v, (int, float)) or is_sym(v):
                return v
            raise Unsupported("np.where operand")
        def _pick(c, x, y):
            if isinstance(c, bool):
                return x if c else y
            x = z3.RealVal(x) if isinstance(x, (int, float)) else x
            y = z3.RealVal(y) if isinstance(y, (int, float)) else y
            if z3.is_int(x) != z3.is_int(y):
                x, y = (z3.ToReal(x) if z3.is_int(x) else x), (z3.ToReal(y) if z3.is_int(y) else y)
            return z3.If(c, x, y)
        return NArr(mask.shape, [_pick(c, _at(choice[0], k), _at(choice[1], k)) for k, c in enumerate(mask.data)])
    if choice or not isinstance(mask, DefMask):
        raise Unsupported("np.where form")
    rows = mask.rows
    tag = f"where{eng.counters.get('where', 0)}"
    eng.counters["where"] = eng.counters.get("where", 0) + 1
    n = z3.Int(f"{tag}.n")
    arr = z3.Const(f"{tag}.idx", z3.ArraySort(z3.IntSort(), z3.IntSort()))
    rank = z3.Function(f"{tag}.rank", z3.IntSort(), z3.IntSort())
    i, j, g = z3.Ints("_wi _wj _wg")
    defined = lambda x: z3.And(0 <= x, x < rows.n, z3.Not(rows.comps[0][x]))      # noqa: E731
    eng.assume(n >= 0)
    eng.assume(z3.ForAll([i], z3.Implies(z3.And(0 <= i, i < n), z3.And(defined(arr[i]), rank(arr[i]) == i))))
    eng.assume(z3.ForAll([g], z3.Implies(defined(g), z3.And(0 <= rank(g), rank(g) < n, arr[rank(g)] == g))))
    eng.assume(z3.ForAll([i, j], z3.Implies(z3.And(0 <= i, i < j, j < n), arr[i] < arr[j])))
    eng.last_where_rank = rank
    return (SList(TInt, n, [arr]),)


@reg("numpy.asarray")
def _asarray2(eng, node, x, dtype=None):
    if isinstance(x, (SList, SDict, Rec)) or is_sym(x):
        return x
    return _array(eng, node, x, dtype)


class DictItems:
    def __init__(self, d):
        self.d = d


class DictValues:
    def __init__(self, d):
        self.d = d


class ValueSet:
    """set(d.values())"""

    def __init__(self, d):
        self.d = d


def _dict_key_const(eng, d, name):
    from .types import key_sort_of
    return z3.FreshConst(key_sort_of(d.k), name)


_old_list = PRELUDE["builtins.list"]


@reg("builtins.list")
def _list2(eng, node, x=()):
    if isinstance(x, DictValues):
        return x
    return _old_list(eng, node, x)


_old_set = PRELUDE["builtins.set"]


@reg("builtins.set")
def _set2(eng, node, x=()):
    if isinstance(x, DictValues):
        return ValueSet(x.d)
    return _old_set(eng, node, x)


_old_len = PRELUDE["builtins.len"]


@reg("builtins.len")
def _len2(eng, node, x):
    if isinstance(x, ValueSet):
        # number of distinct values: only what the callers need is axiomatised
        d = x.d
        if len(d.v.sorts()) != 1:
            raise Unsupported("len(set(values)) of structured values")
        n = eng.fresh("n_distinct", TInt)
        k1, k2 = _dict_key_const(eng, d, "k1"), _dict_key_const(eng, d, "k2")
        v = d.comps[0]
        some = z3.Exists([k1], d.dom[k1])
        two = z3.Exists([k1, k2], z3.And(d.dom[k1], d.dom[k2], v[k1] != v[k2]))
        eng.assume(z3.And(n >= 0, (n >= 1) == some, (n > 1) == two))
        return n
    return _old_len(eng, node, x)


_old_min = PRELUDE["builtins.min"]


@reg("builtins.min")
def _min2(eng, node, *a, **kw):
    if len(a) == 1 and isinstance(a[0], DictValues) and not kw:
        d = a[0].d
        if len(d.v.sorts()) != 1:
            raise Unsupported("min of structured values")
        k = _dict_key_const(eng, d, "k")
        eng.may_raise("ValueError", z3.Not(z3.Exists([k], d.dom[k])), node, "min of an empty sequence")
        m = eng.fresh("min_value", d.v)
        w = eng.fresh("min_witness", d.k)
        from .types import key_term as _kt
        wk = _kt(d.k, w)
        eng.assume(z3.And(d.dom[wk], d.comps[0][wk] == m, z3.ForAll([k], z3.Implies(d.dom[k], m <= d.comps[0][k]))))
        return m
    return _old_min(eng, node, *a, **kw)


@reg("builtins.max")
def _max2(eng, node, *a, **kw):
    if len(a) == 1 and isinstance(a[0], DictValues) and not kw:
        d = a[0].d
        if len(d.v.sorts()) != 1:
            raise Unsupported("max of structured values")
        k = _dict_key_const(eng, d, "k")
        eng.may_raise("ValueError", z3.Not(z3.Exists([k], d.dom[k])), node, "max of an empty sequence")
        m = eng.fresh("max_value", d.v)
        w = eng.fresh("max_witness", d.k)
        from .types import key_term as _kt
        wk = _kt(d.k, w)
        eng.assume(z3.And(d.dom[wk], d.comps[0][wk] == m, z3.ForAll([k], z3.Implies(d.dom[k], d.comps[0][k] <= m))))
        return m
    if len(a) == 1 and isinstance(a[0], SDict) and not kw and a[0].dom.sort().domain() == z3.IntSort():
        # max over the (integer) keys of a dict / the nodes of a graph: a key that no key exceeds
        d = a[0]
        k = z3.Int("_mk")
        eng.may_raise("ValueError", z3.Not(z3.Exists([k], d.dom[k])), node, "max of an empty sequence")
        m = eng.fresh("max_key", TInt)
        eng.assume(z3.And(d.dom[m], z3.ForAll([k], z3.Implies(d.dom[k], k <= m))))
        return m
    return _max(eng, node, *a, **kw)


@reg("numpy.random.randint")
def _np_randint(eng, node, low, high=None, size=None):
    if size is not None:
        raise Unsupported("randint with size")
    r = eng.fresh("np_randint", TInt)
    if high is None:
        eng.may_raise("ValueError", I(low) <= 0, node, "randint(high <= 0)")
        eng.assume(z3.And(0 <= r, r < I(low)))
    else:
        eng.assume(z3.And(I(low) <= r, r < I(high)))
    return r


@reg("numpy.full")
def _np_full(eng, node, shape, value, dtype=None):
    shape = (shape,) if isinstance(shape, int) else tuple(shape)
    if not all(isinstance(x, int) for x in shape):
        raise Unsupported("np.full with symbolic shape")
    n = 1
    for x in shape:
        n *= x
    return NArr(shape, [value] * n)


PI = z3.Real("pi")


@reg("numpy.deg2rad")
def _deg2rad(eng, node, x):
    eng.facts.add(z3.And(PI > 3, PI < 4))
    return ops.real(x) * PI / 180


@reg("collections.defaultdict")
def _defaultdict(eng, node, factory=None):
    from .engine import DefaultDictNew
    name = None
    if isinstance(factory, ModRef) and factory.dotted.startswith("builtins."):
        name = factory.dotted.split(".", 1)[1]
    return DefaultDictNew(name)


@reg("builtins.super")
def _super(eng, node):
    """zero-argument super() inside a method executed by the engine"""
    from .engine import SuperProxy
    fr = eng.frame
    if "." not in fr.qual:
        raise Unsupported("super() outside a method")
    fnode = fr.mod.functions[fr.qual]
    selfname = fnode.args.args[0].arg
    return SuperProxy(fr.env[selfname], [("name", selfname)], fr.qual.rsplit(".", 1)[0])


_ATTR_MATCH = {}


def attr_match_fn(ignore):
    """vermouth.molecule.attributes_match(node, attrs, ignore_keys=ignore) as an uninterpreted predicate over the identities of the two
    attribute mappings (one predicate per ignore list)"""
    key = ",".join(sorted(ignore))
    if key not in _ATTR_MATCH:
        from .types import TObj
        _ATTR_MATCH[key] = z3.Function(f"attributes_match[{key}]", TObj.sort, TObj.sort, z3.BoolSort())
    return _ATTR_MATCH[key]


@reg("vermouth.molecule.attributes_match")
def _attributes_match(eng, node, attributes, template_attributes, ignore_keys=()):
    ign = list(ignore_keys) if isinstance(ignore_keys, (list, tuple, CList)) else None
    if ign is None or not all(isinstance(x, str) for x in ign):
        raise Unsupported("attributes_match with a symbolic ignore list")
    for v in (attributes, template_attributes):
        if not (isinstance(v, Rec) and "_id" in v.fields):
            raise Unsupported("attributes_match on a mapping without a ghost identity field `_id`")
    return attr_match_fn(ign)(attributes.fields["_id"], template_attributes.fields["_id"])


@reg("networkx.get_node_attributes")
def _nx_get_node_attributes(eng, node, graph, name):
    """{n: data[name] for the nodes that have the attribute}"""
    if not (isinstance(graph, Rec) and "nodes" in graph.fields and isinstance(name, str)):
        raise Unsupported("get_node_attributes on something that is not a modelled graph")
    nd = graph.fields["nodes"]
    if name not in nd.v.fields:
        raise Unsupported(f"get_node_attributes: the node record has no field {name!r}")
    ks = key_sort_of(nd.k)
    kx = z3.Const("_gna", ks)
    attrs = nd.v.unflat([c[kx] for c in nd.comps])
    f = attrs.fields[name]
    ft = nd.v.fields[name]
    if isinstance(f, Opt):
        dom = z3.Lambda([kx], z3.And(nd.dom[kx], z3.Not(f.none)))
        val, vt = f.val, ft.t
    else:
        dom, val, vt = nd.dom, f, ft
    return SDict(nd.k, vt, dom, [z3.Lambda([kx], x) for x in vt.flat(val)])


@reg("networkx.Graph")
def _nx_graph(eng, node, *a, **kw):
    from .engine import GraphNew
    if a or kw:
        raise Unsupported("networkx.Graph(...) with arguments")
    return GraphNew()


@reg("networkx.set_node_attributes")
def _nx_set_node_attributes(eng, node, graph, values, name=None):
    """nx.set_node_attributes(G, values, name): a dict sets the attribute on the nodes of G it has as keys, anything else on all nodes"""
    from .engine import is_path
    if isinstance(graph, Rec) and isinstance(name, str) and f"attr_{name}" in graph.fields and "nodes" not in graph.fields:
        # coarse graph objects: a record with one field `attr_<name>` standing for 'the value all nodes carry'
        if not is_path(node.args[0]):
            raise Unsupported("set_node_attributes on a temporary")
        eng.write_path(eng.lvalue(node.args[0]) + [("attr", f"attr_{name}")], values)
        return None
    if not (isinstance(graph, Rec) and "nodes" in graph.fields and isinstance(name, str)):
        raise Unsupported("set_node_attributes on something that is not a modelled graph")
    nd = graph.fields["nodes"]
    if name not in nd.v.fields:
        raise Unsupported(f"set_node_attributes: the node record has no field {name!r}")
    if node is None or not node.args or not is_path(node.args[0]):
        raise Unsupported("set_node_attributes on a graph expression that is not a path")
    ks = key_sort_of(nd.k)
    kx = z3.Const("_sna", ks)
    attrs = nd.v.unflat([c[kx] for c in nd.comps])
    ft = nd.v.fields[name]
    if isinstance(values, SDict):
        hit = z3.And(z3.Select(nd.dom, kx), z3.Select(values.dom, kx))
        newv = values.v.unflat([c[kx] for c in values.comps])
    elif isinstance(values, (dict, list, tuple, CList)) or (isinstance(values, Rec)):
        raise Unsupported("set_node_attributes with this kind of values")
    else:
        hit, newv = z3.Select(nd.dom, kx), values
    cur = attrs.fields[name]
    if type(ft).__name__ == "TOpt":
        new_field = Opt(z3.If(hit, False, cur.none), ft.t.unflat([z3.If(hit, a, b) for a, b in zip(ft.t.flat(newv), ft.t.flat(cur.val))]))
    else:
        new_field = ft.unflat([z3.If(hit, a, b) for a, b in zip(ft.flat(newv), ft.flat(cur))])
    new_attrs = attrs.with_field(name, new_field)
    comps = [z3.Lambda([kx], f) for f in nd.v.flat(new_attrs)]
    from .types import SODict
    new_nd = SODict(nd.k, nd.v, nd.dom, comps, nd.order, nd.pos) if isinstance(nd, SODict) else type(nd)(nd.k, nd.v, nd.dom, comps)
    eng.write_path(eng.lvalue(node.args[0]), graph.with_field("nodes", new_nd))
    return None


@reg("vermouth.molecule.Interaction")
def _interaction(eng, node, atoms=(), parameters=(), meta=None):
    return Rec("Interaction", {"atoms": tuple(eng.concrete_or_fail(atoms))})


@reg("pathlib.Path")
def _path(eng, node, p=None):
    """a path object: only `.suffix` (an unknown string) is modelled"""
    if isinstance(p, Rec) and p.cls == "Path":
        return p
    return Rec("Path", {"suffix": z3.FreshConst(z3.StringSort(), "suffix"), "_id": z3.FreshConst(TObj.sort, "path")})


@reg("tqdm.tqdm")
def _tqdm(eng, node, *a, **k):
    """progress bar: no effect on the verified state"""
    from .engine import LoggerObj
    return LoggerObj()


@reg("itertools.combinations")
def _combinations(eng, node, it, r=2):
    """combinations(d, 2) over the keys of a symbolic dict: a ghost sequence in which every unordered pair of DISTINCT keys occurs
    exactly once (in one of its two orientations)"""
    from .types import TTuple
    src = it
    if isinstance(it, (tuple, list, CList)) and r == 2:
        items = list(it)
        return CList([(items[i], items[j]) for i in range(len(items)) for j in range(i + 1, len(items))])
    if type(src).__name__ == "DictItems" and type(src.d).__name__ == "SODict" and r == 2 and len(src.d.k.sorts()) == 1:
        # combinations(d.items(), 2) of an insertion-ordered dict: every pair of distinct keys once, the earlier inserted key first
        # (a ghost sequence; the order of the pairs among each other is left open)
        d = src.d
        eng.dict_keys(d)         # representation invariant of the ordered dict (checked)
        ks = key_sort_of(d.k)
        tag = f"comb{eng.counters.get('comb', 0)}"
        eng.counters["comb"] = eng.counters.get("comb", 0) + 1
        n = z3.Int(f"{tag}.n")
        ca = z3.Const(f"{tag}.a", z3.ArraySort(z3.IntSort(), ks))
        cb = z3.Const(f"{tag}.b", z3.ArraySort(z3.IntSort(), ks))
        cpos = z3.Function(f"{tag}.pos", ks, ks, z3.IntSort())
        i = z3.Int("_ci")
        x, y = z3.Const("_cx", ks), z3.Const("_cy", ks)
        eng.assume(n >= 0)
        eng.assume(z3.ForAll([i], z3.Implies(z3.And(0 <= i, i < n), z3.And(d.dom[ca[i]], d.dom[cb[i]], d.pos[ca[i]] < d.pos[cb[i]], cpos(ca[i], cb[i]) == i))))
        eng.assume(z3.ForAll([x, y], z3.Implies(z3.And(d.dom[x], d.dom[y], d.pos[x] < d.pos[y]),
                                                z3.And(0 <= cpos(x, y), cpos(x, y) < n, ca[cpos(x, y)] == x, cb[cpos(x, y)] == y))))
        eng.frame.env["_comb_pos"] = cpos
        from .types import _select
        t = TTuple(TTuple(d.k, d.v), TTuple(d.k, d.v))
        va = [z3.Lambda([i], c[ca[i]]) for c in d.comps]
        vb = [z3.Lambda([i], c[cb[i]]) for c in d.comps]
        return SList(t, n, [ca] + va + [cb] + vb)
    if not (isinstance(src, SDict) and r == 2 and len(src.k.sorts()) == 1):
        raise Unsupported("itertools.combinations on this argument")
    ks = key_sort_of(src.k)
    tag = f"comb{eng.counters.get('comb', 0)}"
    eng.counters["comb"] = eng.counters.get("comb", 0) + 1
    n = z3.Int(f"{tag}.n")
    ca = z3.Const(f"{tag}.a", z3.ArraySort(z3.IntSort(), ks))
    cb = z3.Const(f"{tag}.b", z3.ArraySort(z3.IntSort(), ks))
    pos = z3.Function(f"{tag}.pos", ks, ks, z3.IntSort())
    i = z3.Int("_ci")
    x, y = z3.Const("_cx", ks), z3.Const("_cy", ks)
    eng.assume(n >= 0)
    eng.assume(z3.ForAll([i], z3.Implies(z3.And(0 <= i, i < n), z3.And(src.dom[ca[i]], src.dom[cb[i]], ca[i] != cb[i], pos(ca[i], cb[i]) == i))))
    eng.assume(z3.ForAll([x, y], z3.Implies(z3.And(src.dom[x], src.dom[y], x != y),
                                            z3.And(0 <= pos(x, y), pos(x, y) < n, pos(x, y) == pos(y, x),
                                                   z3.Or(z3.And(ca[pos(x, y)] == x, cb[pos(x, y)] == y), z3.And(ca[pos(x, y)] == y, cb[pos(x, y)] == x))))))
    eng.frame.env["_comb_pos"] = pos
    return SList(TTuple(src.k, src.k), n, [ca, cb])

"""Counter-model -> concrete Python inputs -> run the real function (CPython, working tree) -> evaluate
the contract's own postcondition on the concrete outcome.  Used to replay refuted obligations."""
import importlib
import os
import sys
from fractions import Fraction
import z3

from .types import (NArr, SList, SDict, SSet, Rec, Opt, CList, Unsupported, TIntT, TRealT, TBoolT, TStrT, TNodeT, TObjT,
                    TTuple, TVec, TList, TDict, TRec, TOpt, key_untuple, key_term, key_sort_of)
from .ops import F
from . import source


class CannotConcretise(Exception):
    pass


class PyObj:
    """opaque python object standing for a value of the uninterpreted sort Obj"""

    def __init__(self, tag):
        self.tag = tag

    def __repr__(self):
        return f"<obj {self.tag}>"


def scalar(model, term):
    v = model.eval(term, model_completion=True)
    if z3.is_int_value(v):
        return v.as_long()
    if z3.is_rational_value(v):
        return float(Fraction(v.numerator_as_long(), v.denominator_as_long()))
    if z3.is_algebraic_value(v):
        return float(v.approx(20).as_fraction())
    if z3.is_true(v):
        return True
    if z3.is_false(v):
        return False
    if z3.is_string_value(v):
        return v.as_string()
    s = str(v)
    if "!val!" in s:
        return PyObj(s) if s.startswith("Obj") else int(s.split("!val!")[1])
    raise CannotConcretise(f"value {s[:80]}")


def array_entries(model, arr):
    """(entries: list of (key term, value term), default term or None) of an array value in the model"""
    v = model.eval(arr, model_completion=True)
    entries = []
    while True:
        if z3.is_store(v):
            entries.append((v.arg(1), v.arg(2)))
            v = v.arg(0)
        elif z3.is_const_array(v):
            return list(reversed(entries)), v.arg(0)
        elif z3.is_as_array(v):
            fi = model[z3.get_as_array_func(v)]
            lst = fi.as_list()
            for e in lst[:-1]:
                entries.append((e[0], e[1]))
            return list(reversed(entries)), lst[-1]
        else:
            raise CannotConcretise(f"array value {str(v)[:80]}")


def conc(t, val, model):
    """engine value of descriptor type t -> python object"""
    if isinstance(t, (TIntT, TRealT, TBoolT, TStrT, TNodeT, TObjT)):
        if not z3.is_expr(val):
            return float(val.q) if isinstance(val, F) else val
        return scalar(model, val)
    if isinstance(t, TTuple):
        return tuple(conc(s, v, model) for s, v in zip(t.ts, val))
    if isinstance(t, TVec):
        import numpy as np
        return np.array([conc(TRealT(), x, model) for x in val.data], dtype=float).reshape(t.shape)
    if isinstance(t, TOpt):
        if scalar(model, val.none) if z3.is_expr(val.none) else val.none:
            return None
        return conc(t.t, val.val, model)
    if isinstance(t, TList):
        n = scalar(model, val.n)
        if n > 64:
            raise CannotConcretise("list too long")
        return [conc(t.t, t.t.unflat([c[i] for c in val.comps]), model) for i in range(n)]
    if isinstance(t, TDict):
        entries, default = array_entries(model, val.dom)
        if not z3.is_false(default):
            raise CannotConcretise("dict with co-finite domain")
        out = {}
        for k, present in entries:
            if z3.is_true(model.eval(z3.Select(val.dom, k), model_completion=True)):
                kk = conc(t.k, key_untuple(t.k, k), model)
                out[kk] = conc(t.v, t.v.unflat([c[k] for c in val.comps]), model)
        if type(t).__name__ == "TODict":
            # insertion order as the model has it (the representation invariant makes it a permutation of the keys)
            n = scalar(model, val.order.n)
            keys = [conc(t.k, key_untuple(t.k, model.eval(val.order.comps[0][i], model_completion=True)), model) for i in range(min(n, 64))]
            if sorted(map(repr, keys)) == sorted(map(repr, out)):
                out = {k: out[k] for k in keys}
        return out
    if isinstance(t, TRec):
        return {f: conc(ft, val.fields[f], model) for f, ft in t.fields.items()}
    raise CannotConcretise(f"type {t}")


def lift(x, t=None):
    """python object -> engine value (exact)"""
    import numpy as np
    if t is not None and isinstance(t, TOpt):
        return None if x is None else lift(x, t.t)
    if x is None or isinstance(x, (bool, int, str)):
        return x
    if isinstance(x, (np.bool_,)):
        return bool(x)
    if isinstance(x, (np.integer,)):
        return int(x)
    if isinstance(x, (float, np.floating)):
        return F(Fraction(float(x)))
    if isinstance(x, tuple):
        return tuple(lift(e) for e in x)
    if isinstance(x, list):
        return CList(lift(e) for e in x)
    if isinstance(x, np.ndarray):
        return NArr(x.shape, [lift(e) for e in x.reshape(-1).tolist()])
    if isinstance(x, dict) and t is not None and isinstance(t, TDict):
        ks = key_sort_of(t.k)
        dom = z3.K(ks, False)
        comps = [z3.K(ks, z3.FreshConst(s, "d")) for s in t.v.sorts()]
        for k, v in x.items():
            kt = key_term(t.k, lift(k))
            dom = z3.Store(dom, kt, True)
            comps = [z3.Store(c, kt, f) for c, f in zip(comps, t.v.flat(lift(v, t.v)))]
        if type(t).__name__ == "TODict":
            from .types import SODict, SList
            arr, pos = z3.K(z3.IntSort(), z3.FreshConst(ks, "ok")), z3.K(ks, z3.IntVal(0))
            for i, k in enumerate(x):
                kt = key_term(t.k, lift(k))
                arr, pos = z3.Store(arr, i, kt), z3.Store(pos, kt, i)
            return SODict(t.k, t.v, dom, comps, SList(t.k, z3.IntVal(len(x)), [arr]), pos)
        return SDict(t.k, t.v, dom, comps)
    if isinstance(x, dict):
        return {k: lift(v) for k, v in x.items()}
    if isinstance(x, PyObj):
        return z3.Const(x.tag, TObjT.sort)
    raise CannotConcretise(f"cannot lift {type(x).__name__}")


def flat_py(t, x):
    """python value -> list of python scalars / numeval.Arr aligned with t.sorts()"""
    from .numeval import Arr
    import numpy as np
    if isinstance(t, (TIntT, TRealT, TBoolT, TStrT)):
        if isinstance(x, (np.floating, np.integer)):
            x = x.item()
        return [float(x) if isinstance(t, TRealT) else x]
    if isinstance(t, (TNodeT, TObjT)):
        return [x]
    if type(t).__name__ == "TConst":
        return []
    if type(t).__name__ in ("TKw", "_TKw"):
        return [v for k, tt in t.ts.items() for v in flat_py(tt, x[k])]
    if isinstance(t, TTuple):
        return [v for s, e in zip(t.ts, x) for v in flat_py(s, e)]
    if isinstance(t, TVec):
        return [float(v) for v in np.asarray(x, dtype=float).reshape(-1)]
    if isinstance(t, TOpt):
        if x is None:
            return [True] + [0.0 if str(s) == "Real" else 0 for s in t.t.sorts()]
        return [False] + flat_py(t.t, x)
    if isinstance(t, TList):
        rows = [flat_py(t.t, e) for e in x]
        ncomp = len(t.t.sorts())
        return [len(rows)] + [Arr(lambda i, rows=rows, c=c: rows[i][c] if 0 <= i < len(rows) else 0) for c in range(ncomp)]
    if isinstance(t, TDict):
        items = {(k if not isinstance(k, list) else tuple(k)): flat_py(t.v, v) for k, v in x.items()}
        ncomp = len(t.v.sorts())
        dflt = [0] * ncomp
        if isinstance(t.v, TDict):
            dflt = [Arr(lambda k: False)] + [Arr(lambda k: 0) for _ in range(ncomp - 1)]      # absent key of a dict of dicts: the empty dict
        out = [Arr(lambda k, items=items: k in items)] + [Arr(lambda k, items=items, c=c, dflt=dflt: items[k][c] if k in items else dflt[c]) for c in range(ncomp)]
        if type(t).__name__ == "TODict":
            keys = list(items)          # python dicts keep insertion order
            index = {k: i for i, k in enumerate(keys)}
            out += [len(keys), Arr(lambda i, keys=keys: keys[i] if 0 <= i < len(keys) else 0), Arr(lambda k, index=index: index.get(k, 0))]
        return out
    if isinstance(t, TRec):
        return [v for f, ft in t.fields.items() for v in flat_py(ft, x[f])]
    if type(t).__name__ == "TSet":
        members = {(tuple(k) if isinstance(k, list) else k) for k in x}
        return [Arr(lambda k, members=members: k in members)]
    raise CannotConcretise(f"flat_py {t}")


def numeric_clause_check(contract, eng, args, result):
    """evaluate every ensures clause numerically on the real outcome; returns list of failed clause names or None if undecidable"""
    from .engine import Engine
    from .numeval import evaluate, CannotEvaluate
    sym_env, assign = {}, {}
    for p, t in contract.params.items():
        v = t.fresh(p)
        sym_env[p] = v
        for term, val in zip(t.flat(v), flat_py(t, args[p])):
            assign[term.decl().name()] = val
    rt = contract.result
    if rt is not None:
        rv = rt.fresh("result")
        sym_env["result"] = rv
        for term, val in zip(rt.flat(rv), flat_py(rt, result)):
            assign[term.decl().name()] = val
    else:
        sym_env["result"] = None
    e2 = Engine(eng.registry)
    e2.contract = contract
    failed = []
    for name, ens in contract.ensures:
        val = e2.spec_eval(ens, sym_env, old_env=sym_env)
        if isinstance(val, bool):
            ok = val
        else:
            try:
                ok = bool(evaluate(val, assign))
            except CannotEvaluate:
                return None
        if not ok:
            failed.append(name)
    return failed


def has_reals(t):
    if isinstance(t, TRealT) or isinstance(t, TVec):
        return True
    if isinstance(t, TTuple):
        return any(has_reals(x) for x in t.ts)
    if isinstance(t, (TOpt, TList)):
        return has_reals(t.t)
    if isinstance(t, TDict):
        return has_reals(t.k) or has_reals(t.v)
    if isinstance(t, TRec):
        return any(has_reals(x) for x in t.fields.values())
    return False


def real_function(target):
    modname, qual = target.split(":")
    repo = source.REPO
    if repo not in sys.path:
        sys.path.insert(0, repo)
    mod = importlib.import_module(modname)
    if os.path.realpath(mod.__file__).split("/polyply/")[0] != os.path.realpath(repo):
        # module imported from another tree earlier: reload from the tree under verification
        for k in [k for k in sys.modules if k == "polyply" or k.startswith("polyply.")]:
            del sys.modules[k]
        mod = importlib.import_module(modname)
    obj = mod
    for part in qual.split("."):
        obj = getattr(obj, part)
    return obj


def generic_replay(contract):
    """replay hook for functions whose parameters are plain data (no self)"""
    def hook(ob, rep):
        from .engine import Engine
        model = ob.model
        eng = rep.engine
        try:
            args = {}
            for p, t in contract.params.items():
                v = t.fresh(p)
                args[p] = conc(t, v, model)
        except CannotConcretise as e:
            return None
        fn = real_function(contract.target)
        shown = {k: repr(v)[:300] for k, v in args.items()}
        try:
            result = fn(**(contract.adapt(args) if contract.adapt else args))
            raised = None
        except Exception as e:          # noqa: BLE001
            result, raised = None, type(e).__name__
        if raised is not None:
            allowed = [exc for exc, _ in contract.raises]
            bad = raised not in allowed and not (raised == "OSError" and "IOError" in allowed)
            return (bad, {"args": shown, "raised": raised}, f"real function raised {raised}")
        if any(has_reals(t) for t in contract.params.values()) or (contract.result is not None and has_reals(contract.result)):
            try:
                failed = numeric_clause_check(contract, eng, args, result)
            except CannotConcretise:
                failed = None
            if failed is None:
                return None
            return (bool(failed), {"args": shown, "result": repr(result)[:300]},
                    f"postcondition clause(s) {failed} false (tolerance 1e-6) on the real floating point result" if failed
                    else "real result satisfies the contract on this input (within 1e-6)")
        # evaluate the failed clause on the concrete outcome
        env = {p: lift(args[p], t) for p, t in contract.params.items()}
        env["result"] = lift(result, contract.result)
        e2 = Engine(eng.registry)
        e2.contract = contract
        failed = []
        for name, ens in contract.ensures:
            val = e2.spec_eval(ens, env, old_env=env)
            if not isinstance(val, bool):
                s = z3.Solver()
                s.set("timeout", 5000)
                s.add(z3.Not(val))
                r = s.check()
                if r == z3.unknown:
                    return None
                val = r == z3.unsat
            if not val:
                failed.append(name)
        return (bool(failed), {"args": shown, "result": repr(result)[:300]},
                f"postcondition clause(s) {failed} false on the real result" if failed else "real result satisfies the contract on this input")
    return hook

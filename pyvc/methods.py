"""Methods of built-in container values and of repository classes."""
import z3
from .types import (NArr, SList, SDict, SSet, Rec, Opt, CList, FuncRef, ModRef, Unsupported, is_sym, I, B, S,
                    slist_get, slist_set, slist_append, slist_slice, to_slist, key_term, key_sort_of, TInt)
from . import ops
from .ops import b_and, b_or, b_not, values_equal, truth
from . import source


def _wb(eng, bm, newval):
    if bm.path is None:
        raise Unsupported(f"mutating method .{bm.name} on a temporary (no access path)")
    eng.write_path(bm.path, newval)


def call_method(eng, bm, args, kwargs, node):
    obj, name = bm.obj, bm.name
    if isinstance(obj, Opt):
        eng.may_raise("AttributeError", obj.none, node, f".{name} on None")
        obj = obj.val
    # ---- repository classes
    if isinstance(obj, Rec) and ":" in obj.cls:
        modname, cls = obj.cls.split(":")
        mod = source.load(modname)
        cur = cls
        foreign = None
        if getattr(bm, "sup", None):
            # super().name(...): the lookup starts at the bases of the class the running method is defined in
            b = mod.classes[bm.sup].bases[0] if bm.sup in mod.classes and mod.classes[bm.sup].bases else None
            bname = b.id if hasattr(b, "id") else None
            if bname in mod.classes:
                cur = bname
            else:
                cur, foreign = None, b
        qual = f"{cur}.{name}"
        # single inheritance inside the same module is resolved syntactically
        while cur is not None and qual not in mod.functions and cur in mod.classes and mod.classes[cur].bases:
            b = mod.classes[cur].bases[0]
            bname = b.id if hasattr(b, "id") else None
            if bname in mod.classes:
                cur = bname
                qual = f"{cur}.{name}"
            else:
                foreign = b
                break
        key = f"{modname}:{qual}"
        if cur is None and foreign is not None:
            # super().name(...) into a base class outside the repository: an ASSUMED contract may be registered for it
            skey = f"{modname}:{bm.sup}.super.{name}"
            if skey in eng.registry:
                eng.trusted_used.add(skey)
                return eng.apply_contract(eng.registry[skey], FuncRef(modname, f"{bm.sup}.super.{name}"), [obj] + list(args), kwargs, node, self_path=bm.path)
        if (cur is None or (qual not in mod.functions and key not in eng.registry)) and foreign is not None \
                and "nodes" in obj.fields and "adj" in obj.fields:
            # the method is inherited from a class outside the repository (networkx.Graph / vermouth Molecule): graph model
            import ast as _ast
            if _ast.unparse(foreign) in ("nx.Graph", "networkx.Graph", "Molecule", "vermouth.molecule.Molecule", "nx.DiGraph"):
                return graph_method(eng, bm, obj, name, args, kwargs, node)
        if qual in mod.functions or key in eng.registry:
            fr = FuncRef(modname, qual)
            return eng.call_repo(fr, [obj] + list(args), kwargs, node, self_path=bm.path) if key not in eng.registry or eng.registry[key].inline \
                else eng.apply_contract(eng.registry[key], fr, [obj] + list(args), kwargs, node, self_path=bm.path)
        raise Unsupported(f"method {name} of {obj.cls} not found")
    if isinstance(obj, Rec) and f"{obj.cls}:{name}" in eng.registry:
        # a method of a library class under an ASSUMED contract
        eng.trusted_used.add(f"{obj.cls}.{name}")
        return eng.apply_contract(eng.registry[f"{obj.cls}:{name}"], FuncRef(obj.cls, name), [obj] + list(args), kwargs, node, self_path=bm.path)
    if isinstance(obj, Rec):
        return rec_method(eng, bm, obj, name, args, kwargs, node)
    if isinstance(obj, CList):
        return clist_method(eng, bm, obj, name, args, kwargs, node)
    if isinstance(obj, SList):
        return slist_method(eng, bm, obj, name, args, kwargs, node)
    if isinstance(obj, tuple):
        if name == "count":
            return sum_terms([ops.values_equal(x, args[0]) for x in obj])
        if name == "index":
            raise Unsupported("tuple.index")
    if isinstance(obj, dict):
        return dict_method(eng, bm, obj, name, args, kwargs, node)
    if isinstance(obj, SDict):
        return sdict_method(eng, bm, obj, name, args, kwargs, node)
    if type(obj).__name__ == "ColView" and name == "reshape":
        return obj
    if isinstance(obj, NArr):
        return narr_method(eng, bm, obj, name, args, kwargs, node)
    if isinstance(obj, (str, z3.SeqRef)):
        return str_method(eng, bm, obj, name, args, kwargs, node)
    raise Unsupported(f"method .{name} on {type(obj).__name__} (line {getattr(node, 'lineno', '?')})")


def sum_terms(bools):
    out = 0
    for b in bools:
        if b is True:
            out = out + 1
        elif b is False:
            continue
        else:
            out = out + z3.If(b, 1, 0)
    return out


NX_DEGREE = None


def nx_degree(adj_dom, x):
    """degree of x in the graph with adjacency relation adj (uninterpreted; the facts used about it are stated as axioms of the
    contracts that need them and certified separately)"""
    global NX_DEGREE
    if NX_DEGREE is None:
        from .types import TNode
        NX_DEGREE = z3.Function("nx_degree", adj_dom.sort(), TNode.sort, z3.IntSort())
    return NX_DEGREE(adj_dom, x)


def graph_method(eng, bm, obj, name, args, kwargs, node):
    adj, nodes = obj.fields["adj"], obj.fields["nodes"]
    has = lambda a, b: z3.Select(adj.dom, key_term(adj.k, (a, b)))      # noqa: E731
    if name == "has_edge":
        return has(args[0], args[1])
    if name == "degree" and len(args) == 1:
        d = nx_degree(adj.dom, args[0])
        eng.facts.add(d >= 0)
        return d
    if name == "has_node":
        return z3.Select(nodes.dom, key_term(nodes.k, args[0]))
    if name == "add_node" and len(args) == 1:
        # G.add_node(n, **attrs): every field of the node-attribute record must be given (optional fields default to absent)
        vt = nodes.v
        given = dict(kwargs)
        fields = {}
        for f, ft in vt.fields.items():
            if f in given:
                v = given.pop(f)
                fields[f] = Opt(False, v) if type(ft).__name__ == "TOpt" else v
            elif type(ft).__name__ == "TOpt":
                fields[f] = Opt(True, ft.t.fresh("absent"))
            else:
                raise Unsupported(f"add_node without the attribute {f!r} of the node record")
        if given:
            raise Unsupported(f"add_node with attributes {sorted(given)} that the node record does not have")
        kt = key_term(nodes.k, args[0])
        fl = vt.flat(Rec(vt.cls, fields))
        # an existing node keeps attributes that are not given: all fields are given here, so the entry is replaced
        from .types import sdict_store
        new_nodes = sdict_store(nodes, kt, fl)
        _wb(eng, bm, obj.with_field("nodes", new_nodes))
        return None
    if name == "add_nodes_from" and len(args) == 1 and not kwargs and type(args[0]).__name__ == "SymRange":
        # G.add_nodes_from(range(lo, hi)): the nodes lo..hi-1, in that order, without attributes.  Supported where none of them
        # exists yet (obligation) and every node attribute is optional
        from .types import SODict, SList as _SL
        r = args[0]
        vt = nodes.v
        if any(type(ft).__name__ != "TOpt" for ft in vt.fields.values()):
            raise Unsupported("add_nodes_from: the node record has attributes that are not optional")
        ks = nodes.dom.sort().domain()
        if ks != z3.IntSort():
            raise Unsupported("add_nodes_from(range) on a graph whose node keys are not integers")
        kx, ix = z3.Int("_anx"), z3.Int("_ani")
        inr = z3.And(r.lo <= kx, kx < r.hi)
        eng.oblige("model", f"add_nodes_from(range): none of the nodes exists yet@{eng.site(node)}",
                   z3.ForAll([kx], z3.Implies(inr, z3.Not(z3.Select(nodes.dom, kx)))), node)
        absent = Rec(vt.cls, {f: Opt(True, ft.t.fresh("absent")) for f, ft in vt.fields.items()})
        fl = vt.flat(absent)
        comps = [z3.Lambda([kx], z3.If(inr, a, c[kx])) for a, c in zip(fl, nodes.comps)]
        dom = z3.Lambda([kx], z3.Or(z3.Select(nodes.dom, kx), inr))
        if isinstance(nodes, SODict):
            n0 = nodes.order.n
            L = z3.If(r.hi > r.lo, r.hi - r.lo, 0)
            arr = z3.Lambda([ix], z3.If(ix < n0, nodes.order.comps[0][ix], r.lo + (ix - n0)))
            pos = z3.Lambda([kx], z3.If(inr, n0 + (kx - r.lo), nodes.pos[kx]))
            new_nodes = SODict(nodes.k, nodes.v, dom, comps, _SL(nodes.order.t, n0 + L, [arr]), pos)
        else:
            new_nodes = type(nodes)(nodes.k, nodes.v, dom, comps)
        _wb(eng, bm, obj.with_field("nodes", new_nodes))
        return None
    if name == "add_edges_from" and len(args) == 1 and not kwargs:
        # G.add_edges_from(pairs): supported where both endpoints of every pair are nodes already (obligation)
        pairs = eng.as_sequence(args[0])
        if len(pairs.comps) != 2:
            raise Unsupported("add_edges_from: the entries are not pairs of scalar keys")
        ix = z3.Int("_aei")
        a_, b_ = pairs.comps[0][ix], pairs.comps[1][ix]
        from .types import _select
        a_, b_ = _select(pairs.comps[0], ix), _select(pairs.comps[1], ix)
        rng = z3.And(0 <= ix, ix < pairs.n)
        eng.oblige("model", f"add_edges_from endpoints exist@{eng.site(node)}",
                   z3.ForAll([ix], z3.Implies(rng, z3.And(z3.Select(nodes.dom, key_term(nodes.k, a_)), z3.Select(nodes.dom, key_term(nodes.k, b_))))), node)
        px = z3.Const("_aep", adj.dom.sort().domain())
        listed = z3.Exists([ix], z3.And(rng, z3.Or(px == key_term(adj.k, (a_, b_)), px == key_term(adj.k, (b_, a_)))))
        _wb(eng, bm, obj.with_field("adj", SSet(adj.k, z3.Lambda([px], z3.Or(z3.Select(adj.dom, px), listed)))))
        return None
    if name == "add_edge" and len(args) == 2 and not kwargs:
        a, b = args
        for x in (a, b):
            # an endpoint that is not a node yet would be created with empty attributes, which the node record cannot express:
            # the call site must establish that both endpoints exist (obligation)
            eng.oblige("model", f"add_edge endpoints exist@{eng.site(node)}", z3.Select(nodes.dom, key_term(nodes.k, x)), node)
        new_dom = z3.Store(z3.Store(adj.dom, key_term(adj.k, (a, b)), True), key_term(adj.k, (b, a)), True)
        new_obj = obj.with_field("adj", SSet(adj.k, new_dom))
        if "eattr" in obj.fields:
            # a new edge starts with an empty attribute dictionary; an existing edge keeps its attributes
            from .engine import edge_key
            ea = obj.fields["eattr"]
            ek = key_term(ea.k, edge_key(a, b))
            had = has(a, b)
            inner_t = ea.v
            if type(inner_t).__name__ != "TDict":
                raise Unsupported("edge attributes must be declared as a dict per edge")
            iks = key_sort_of(inner_t.k)
            cur = [c[ek] for c in ea.comps]
            fresh_inner = [z3.K(iks, False)] + cur[1:]
            new_comps = [z3.Store(c, ek, z3.If(had, old, new)) for c, old, new in zip(ea.comps, cur, fresh_inner)]
            new_obj = new_obj.with_field("eattr", type(ea)(ea.k, ea.v, z3.Store(ea.dom, ek, True), new_comps))
        _wb(eng, bm, new_obj)
        return None
    raise Unsupported(f"nx.Graph.{name}")


def rec_method(eng, bm, obj, name, args, kwargs, node):
    if obj.cls == "nx.Graph":
        return graph_method(eng, bm, obj, name, args, kwargs, node)
    # mapping-like records (node attribute dicts)
    if name == "get":
        key = args[0]
        default = args[1] if len(args) > 1 else None
        if isinstance(key, str):
            if key not in obj.fields:
                return default
            f = obj.fields[key]
            if isinstance(f, Opt):
                if eng.choose(f.none):
                    return default
                return f.val
            return f
    if name == "copy":
        return obj
    raise Unsupported(f"method .{name} on record {obj.cls}")


def clist_method(eng, bm, obj, name, args, kwargs, node):
    if name == "append":
        _wb(eng, bm, CList(list(obj) + [args[0]]))
        return None
    if name == "extend":
        _wb(eng, bm, eng.list_extend(obj, args[0]))
        return None
    if name == "copy":
        return CList(obj)
    if name == "insert" and isinstance(args[0], int):
        new = list(obj)
        new.insert(args[0], args[1])
        _wb(eng, bm, CList(new))
        return None
    if name == "pop" and (not args or isinstance(args[0], int)):
        if not obj:
            raise_(eng, "IndexError", node)
        new = list(obj)
        v = new.pop(*args)
        _wb(eng, bm, CList(new))
        return v
    if name == "remove":
        # first element equal to x
        new = list(obj)
        for i, e in enumerate(obj):
            if eng.choose(truth(values_equal(e, args[0]))):
                del new[i]
                _wb(eng, bm, CList(new))
                return None
        raise_(eng, "ValueError", node)
    if name == "index":
        for i, e in enumerate(obj):
            if eng.choose(truth(values_equal(e, args[0]))):
                return i
        raise_(eng, "ValueError", node)
    if name == "count":
        return sum_terms([values_equal(e, args[0]) for e in obj])
    if name == "reverse":
        _wb(eng, bm, CList(list(reversed(obj))))
        return None
    raise Unsupported(f"list.{name}")


def raise_(eng, cls, node):
    from .engine import PyRaise
    raise PyRaise(cls, node)


def slist_method(eng, bm, obj, name, args, kwargs, node):
    if name == "append":
        _wb(eng, bm, slist_append(obj, args[0]))
        return None
    if name == "copy":
        return obj
    if name == "extend":
        _wb(eng, bm, eng.list_extend(obj, args[0]))
        return None
    if name == "remove":
        # removes the first occurrence: ghost index j of that occurrence
        x = args[0]
        j = eng.fresh("rm_idx", TInt)
        i = z3.FreshConst(z3.IntSort(), "i")
        present = ops.contains(obj, x)
        eng.may_raise("ValueError", b_not(present), node, "list.remove(x): x not in list")
        eng.assume(z3.And(0 <= j, j < obj.n, B(values_equal(slist_get(obj, j), x))))
        eng.assume(z3.ForAll([i], z3.Implies(z3.And(0 <= i, i < j), z3.Not(B(values_equal(slist_get(obj, i), x))))))
        k = z3.Int("_rm")
        new = SList(obj.t, obj.n - 1, [z3.Lambda([k], z3.If(k < j, c[k], c[k + 1])) for c in obj.comps])
        _wb(eng, bm, new)
        return None
    if name == "reverse" and not args:
        i = z3.Int("_rv")
        _wb(eng, bm, SList(obj.t, obj.n, [z3.Lambda([i], c[obj.n - 1 - i]) for c in obj.comps]))
        return None
    if name == "index" and len(args) == 1 and len(obj.comps) == 1:
        # first position holding the value (ValueError if there is none)
        x = args[0]
        present = ops.contains(obj, x)
        eng.may_raise("ValueError", b_not(present), node, "list.index(x): x not in list")
        j = eng.fresh("index_of", TInt)
        i = z3.FreshConst(z3.IntSort(), "i")
        eng.assume(z3.And(0 <= j, j < obj.n, B(values_equal(slist_get(obj, j), x))))
        eng.assume(z3.ForAll([i], z3.Implies(z3.And(0 <= i, i < j), z3.Not(B(values_equal(slist_get(obj, i), x))))))
        return j
    if name == "pop" and not args:
        eng.may_raise("IndexError", obj.n == 0, node, "pop from empty list")
        v = slist_get(obj, obj.n - 1)
        _wb(eng, bm, SList(obj.t, obj.n - 1, obj.comps))
        return v
    raise Unsupported(f"symbolic list.{name}")


def dict_method(eng, bm, obj, name, args, kwargs, node):
    if name == "get":
        key = args[0]
        default = args[1] if len(args) > 1 else None
        if not is_sym(key):
            return obj.get(key, default)
        for k, v in obj.items():
            if eng.choose(truth(values_equal(k, key))):
                return v
        return default
    if name == "items":
        return CList([(k, v) for k, v in obj.items()])
    if name == "keys":
        return CList(list(obj.keys()))
    if name == "values":
        return CList(list(obj.values()))
    if name == "update":
        new = dict(obj)
        src = args[0] if args else {}
        if not isinstance(src, dict) or any(is_sym(k) for k in src):
            raise Unsupported("dict.update with symbolic keys on a concrete dict")
        new.update(src)
        new.update(kwargs)
        _wb(eng, bm, new)
        return None
    if name == "copy":
        return dict(obj)
    if name == "pop" and args and not is_sym(args[0]) and all(not is_sym(k) for k in obj):
        # d.pop(key[, default]) on a dict with concrete keys
        new = dict(obj)
        if args[0] in new:
            v = new.pop(args[0])
            _wb(eng, bm, new)
            return v
        if len(args) > 1:
            return args[1]
        raise_(eng, "KeyError", node)
    raise Unsupported(f"dict.{name}")


def sdict_method(eng, bm, obj, name, args, kwargs, node):
    if name == "get":
        kt = key_term(obj.k, args[0])
        default = args[1] if len(args) > 1 else None
        if eng.choose(z3.Select(obj.dom, kt)):
            return obj.v.unflat([c[kt] for c in obj.comps])
        return default
    if name == "update":
        src = args[0]
        new = obj
        from .engine import AList
        if isinstance(src, (dict, AList)):
            for k, v in (src.items() if isinstance(src, dict) else src):
                kt = key_term(obj.k, k)
                fl = obj.v.flat(v)
                from .types import sdict_store
                new = sdict_store(new, kt, fl)
            _wb(eng, bm, new)
            return None
        raise Unsupported("dict.update from symbolic dict")
    if name in ("keys",):
        return eng.dict_keys(obj)
    if name == "items":
        from .prelude import DictItems
        return DictItems(obj)
    if name == "values":
        from .prelude import DictValues
        return DictValues(obj)
    if name == "copy":
        return obj
    raise Unsupported(f"symbolic dict.{name}")


def narr_method(eng, bm, obj, name, args, kwargs, node):
    if name == "copy":
        return obj
    if name == "reshape":
        shape = args[0] if len(args) == 1 and isinstance(args[0], tuple) else tuple(args)
        n = len(obj.data)
        if shape == (-1,):
            shape = (n,)
        shape = tuple(n // max(1, -prod(shape)) if s == -1 else s for s in shape)
        if prod(shape) != n:
            raise Unsupported("reshape size mismatch")
        return NArr(shape, obj.data)
    if name == "all":
        return b_and(*[truth(x) for x in obj.data])
    if name == "any":
        return b_or(*[truth(x) for x in obj.data])
    if name == "sum" and not args and not kwargs:
        out = 0
        for x in obj.data:
            out = ops.arith("+", out, x, eng.facts)
        return out
    raise Unsupported(f"ndarray.{name}")


def prod(xs):
    out = 1
    for x in xs:
        out *= x
    return out


def str_method(eng, bm, obj, name, args, kwargs, node):
    if isinstance(obj, str) and all(isinstance(a, (str, int)) or a is None for a in args):
        if name in ("startswith", "endswith", "strip", "lstrip", "rstrip", "lower", "upper", "casefold", "replace", "isdigit",
                    "find", "count", "isalpha", "isupper"):
            return getattr(obj, name)(*args)
        if name == "split":
            return CList(obj.split(*args))
        if name == "join":
            raise Unsupported("str.join")
    s = S(obj)
    if name == "startswith":
        return z3.PrefixOf(S(args[0]), s)
    if name == "endswith":
        return z3.SuffixOf(S(args[0]), s)
    if name == "format":
        return z3.FreshConst(z3.StringSort(), "fmt")
    if name in ("casefold", "lower", "upper", "strip"):
        f = z3.Function(f"str_{name}", z3.StringSort(), z3.StringSort())      # uninterpreted: a function of the string
        return f(s)
    if name == "join":
        return z3.FreshConst(z3.StringSort(), "joined")
    raise Unsupported(f"str.{name} on symbolic string")

/-
Certificate for the lemma schemas pyvc instantiates for its uninterpreted fractional part
`frac u = u - ⌊u⌋` (pyvc/solver.py: frac_lemmas, pyvc/ops.py: frac_term / real_mod).
Checked by `lean lean/Frac.lean` (thorough tier / ./run lean); Mathlib provides `Int.fract`.
-/
import Mathlib

open Int

-- range:  0 ≤ frac u < 1
theorem frac_range (u : ℝ) : 0 ≤ fract u ∧ fract u < 1 :=
  ⟨fract_nonneg u, fract_lt_one u⟩

-- negation:  frac (-u) = if frac u = 0 then 0 else 1 - frac u
theorem frac_neg (u : ℝ) : fract (-u) = if fract u = 0 then 0 else 1 - fract u := by
  by_cases h : fract u = 0
  · simp [h, fract_neg_eq_zero.mpr h]
  · simp [h, fract_neg h]

-- integer shift:  u - v integer  →  frac u = frac v
theorem frac_shift (u v : ℝ) (k : ℤ) (h : u - v = k) : fract u = fract v := by
  have : u = v + k := by linarith
  rw [this, fract_add_intCast]

-- frac u ≤ u for u ≥ 0
theorem frac_le_self (u : ℝ) (h : 0 ≤ u) : fract u ≤ u := by
  have : (0 : ℝ) ≤ ⌊u⌋ := by exact_mod_cast floor_nonneg.mpr h
  have := self_sub_floor u
  linarith [fract_add_floor u]

-- frac u = u for 0 ≤ u < 1
theorem frac_eq_self (u : ℝ) (h0 : 0 ≤ u) (h1 : u < 1) : fract u = u :=
  fract_eq_iff.mpr ⟨h0, h1, ⟨0, by simp⟩⟩

-- integrality:  u - frac u is an integer
theorem frac_integral (u : ℝ) : ∃ k : ℤ, u - fract u = k :=
  ⟨⌊u⌋, by rw [self_sub_fract]⟩

-- encoding of Python's float modulo for a positive modulus:  x - m * ⌊x / m⌋ = m * frac (x / m)
theorem real_mod_encoding (x m : ℝ) (hm : 0 < m) : x - m * ⌊x / m⌋ = m * fract (x / m) := by
  have hne : m ≠ 0 := ne_of_gt hm
  unfold fract
  field_simp

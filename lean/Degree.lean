/-
Certificate for the DEGREE LEMMA assumed as an axiom in the body proof of
polyply.src.graph_utils:find_connecting_edges (contracts/graph_utils.py):

  adj_F ⊆ adj_M,  adj_M x y,  ¬ adj_F x y   ⟹   degree_F x < degree_M x

for finite graphs, with networkx' convention that a self-loop counts twice
(degree x = number of neighbours of x, plus one if x is its own neighbour).
Checked by `lean lean/Degree.lean` (thorough tier).
-/
import Mathlib

open Finset

variable {V : Type} [Fintype V] [DecidableEq V]

def nxDegree (adj : V → V → Prop) [DecidableRel adj] (x : V) : ℕ :=
  (univ.filter (fun y => adj x y)).card + (if adj x x then 1 else 0)

theorem degree_lemma (adjF adjM : V → V → Prop) [DecidableRel adjF] [DecidableRel adjM]
    (hsub : ∀ a b, adjF a b → adjM a b) (x y : V) (hM : adjM x y) (hF : ¬ adjF x y) :
    nxDegree adjF x < nxDegree adjM x := by
  unfold nxDegree
  have hsubset : (univ.filter (fun z => adjF x z)) ⊆ (univ.filter (fun z => adjM x z)) := by
    intro z hz
    simp only [mem_filter, mem_univ, true_and] at hz ⊢
    exact hsub x z hz
  have hss : (univ.filter (fun z => adjF x z)) ⊂ (univ.filter (fun z => adjM x z)) := by
    rw [Finset.ssubset_iff_of_subset hsubset]
    exact ⟨y, by simp [hM], by simp [hF]⟩
  have hcard := Finset.card_lt_card hss
  have hloop : (if adjF x x then 1 else 0) ≤ (if adjM x x then 1 else 0) := by
    by_cases h : adjF x x
    · simp [h, hsub x x h]
    · simp [h]
  omega

/-
Certificate for the arithmetic step of C15's clause "each template holds one position per atom name with ZERO CENTRE OF GEOMETRY":

  contracts/templates.py proves of generate_templates.map_from_CoG that every stored vector is the atom's position minus ONE common
  vector c, the value center_of_geometry returned; numpy.average over the rows is the mean (assumed).  This file certifies, per
  coordinate, that the mean of the differences is then zero:

      c = (∑ i, v i) / n,  n = number of atoms > 0   ⟹   (∑ i, (v i - c)) / n = 0

Checked by `lean lean/Centroid.lean` (thorough tier).
-/
import Mathlib

open Finset

theorem centroid_of_differences_is_zero {ι : Type} [Fintype ι] [Nonempty ι] (v : ι → ℝ) :
    (∑ i, (v i - (∑ j, v j) / (Fintype.card ι : ℝ))) / (Fintype.card ι : ℝ) = 0 := by
  have hn : (Fintype.card ι : ℝ) ≠ 0 := by
    exact_mod_cast Fintype.card_ne_zero
  rw [Finset.sum_sub_distrib, Finset.sum_const, Finset.card_univ, nsmul_eq_mul]
  field_simp
  ring

/-- the same with the common vector given by its defining equation (what the contract of center_of_geometry would state) -/
theorem differences_sum_to_zero {ι : Type} [Fintype ι] (v : ι → ℝ) (c : ℝ)
    (hc : (Fintype.card ι : ℝ) * c = ∑ j, v j) : ∑ i, (v i - c) = 0 := by
  rw [Finset.sum_sub_distrib, Finset.sum_const, Finset.card_univ, nsmul_eq_mul, hc]
  ring

/-
C06 ("the centre of geometry of its atoms equals the residue position"): contracts/backmap.py proves that every atom of a backmapped
residue sits at  position + fudge • R (template atom)  for ONE linear map R per residue (the oriented template is R applied to the
template, assumed of orient_template); the template has zero centre of geometry (above).  Then the centre of the placed atoms is the
residue position, for every linear R, factor and number of atoms:
-/
theorem placed_centre_is_position {ι E : Type} [Fintype ι] [Nonempty ι] [AddCommGroup E] [Module ℝ E]
    (t : ι → E) (R : E →ₗ[ℝ] E) (f : ℝ) (p : E) (h0 : ∑ i, t i = 0) :
    ((Fintype.card ι : ℝ)⁻¹) • (∑ i, (p + f • R (t i))) = p := by
  have hn : (Fintype.card ι : ℝ) ≠ 0 := by
    exact_mod_cast Fintype.card_ne_zero
  rw [Finset.sum_add_distrib, Finset.sum_const, Finset.card_univ, ← Finset.smul_sum, ← map_sum, h0, map_zero, smul_zero, add_zero]
  rw [← Nat.cast_smul_eq_nsmul ℝ, smul_smul, inv_mul_cancel₀ hn, one_smul]

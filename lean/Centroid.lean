/-
Certificate for the arithmetic step of C15's clause "each template holds one position per atom name with ZERO CENTRE OF GEOMETRY":

  contracts/templates.py proves of generate_templates.map_from_CoG that every stored vector is the atom's position minus ONE common
  vector c, the value center_of_geometry returned; numpy.average over the rows is the mean (assumed).  This file certifies, per
  coordinate, that the mean of the differences is then zero:

      c = (∑ i, v i) / n,  n = number of atoms > 0   ⟹   (∑ i, (v i - c)) / n = 0

Checked by `lean lean/Centroid.lean` (thorough tier).
-/
import Mathlib

open Finset

theorem centroid_of_differences_is_zero {ι : Type} [Fintype ι] [Nonempty ι] (v : ι → ℝ) :
    (∑ i, (v i - (∑ j, v j) / (Fintype.card ι : ℝ))) / (Fintype.card ι : ℝ) = 0 := by
  have hn : (Fintype.card ι : ℝ) ≠ 0 := by
    exact_mod_cast Fintype.card_ne_zero
  rw [Finset.sum_sub_distrib, Finset.sum_const, Finset.card_univ, nsmul_eq_mul]
  field_simp
  ring

/-- the same with the common vector given by its defining equation (what the contract of center_of_geometry would state) -/
theorem differences_sum_to_zero {ι : Type} [Fintype ι] (v : ι → ℝ) (c : ℝ)
    (hc : (Fintype.card ι : ℝ) * c = ∑ j, v j) : ∑ i, (v i - c) = 0 := by
  rw [Finset.sum_sub_distrib, Finset.sum_const, Finset.card_univ, nsmul_eq_mul, hc]
  ring

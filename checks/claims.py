"""What MANIFEST.json claims per property (single source for tools/gen_manifest.py)."""
P_TECH = "contract-based deductive verification: VCs from the real AST (pyvc) discharged by z3/cvc5"
CLAIMS = {
 "C09": {"level": "other",
         "text": "Deductive: the real match_dihedral_interaction_types (soundness, completeness, least-wildcarded, direction independence for every table and every atom-type sequence), both combination rules (+symmetry lemma) and the C6/C12->sigma/epsilon loop (inductive invariant over all tables) are proved function by function. Level 'other' because the per-molecule lookup in gen_bonded_interactions and define substitution are not yet under contract.",
         "note": "Trusted: pyvc's encoding of the Python subset (A-SUBSET), floats as reals (A-REAL), sqrt/root6 axiomatised (x>=0 => r>=0 and r^n=x), z3/cvc5 soundness.",
         "technique": P_TECH},
}
NOT_CLAIMED = {}
NOTES = "See DESIGN.md. Properties listed under not_applicable with the reason 'check not finished' are unclaimed work in progress, not judged inapplicable."

"""What MANIFEST.json claims per property (single source for tools/gen_manifest.py)."""
P_TECH = "contract-based deductive verification: VCs generated from the real AST by pyvc, discharged by z3 5.1 / cvc5"
B_TECH = "bounded stand-in: executable contracts on the real functions, exhaustive small-scope enumeration (labelled bounded, not counted as proved)"
TRUST = ("Trusted: pyvc's encoding of the Python subset (A-SUBSET), floats as mathematical reals (A-REAL), prelude models of numpy/builtins, "
         "assumed contracts on callees marked trusted, z3/cvc5 soundness. ")
CLAIMS = {
 "C02": {"level": "other",
         "text": "Bounded only so far: the statement, written as the spec function link_instances(ff, residue graph), is compared in both directions with what MapToMolecule+ApplyLinks produce on every connected residue graph <= 4 nodes x 525 generated force fields in both syntaxes (dangling .itp windows included). No deductive obligations yet, hence 'other'.",
         "note": "No proof claimed. Oracle written from the statement; networkx GraphMatcher and vermouth link semantics are exercised, not assumed. Four genuine defects are listed as known findings (K9-K12).",
         "technique": B_TECH},
 "C06": {"level": "other",
         "text": "Deductive: the real _matrix_multiplication (loop invariant over a symbolic number of columns) and _rotate_xyz are proved to compute Rz*Ry*Rx*X column by column for every template size and angle triple; lemmas: R^T R = I, det R = 1 for all angles (only sin^2+cos^2=1 used), orthogonal => lengths preserved. 'other' because orient_template/_place_init_coords (name bijection, centring at the call site) are not yet under contract.",
         "note": TRUST + "sin/cos uninterpreted with the Pythagorean identity only.",
         "technique": P_TECH},
 "C08": {"level": "other",
         "text": "Bounded only so far: relational contract obs(read(tree)) == obs(read(flatten(tree))) with a flatten written from the statement, exhaustive over every include tree <= 3 files / depth 2 x 11 conditional wrappings x 7 #define placements x repeated includes, all section orders, all [molecules] lists <= 4 lines, instance independence, #error activity.",
         "note": "No proof claimed. Known findings F5, F5b, F12, K7 carved out by input class.",
         "technique": B_TECH},
 "C09": {"level": "other",
         "text": "Deductive: the real match_dihedral_interaction_types (sound, complete, least-wildcarded, direction independent for every table), both combination rules (+symmetry) and the C6/C12->sigma/epsilon loop (inductive invariant over all tables) are proved. Bounded: Topology.preprocess against a resolver written from the statement on 33k generated topologies (all 16 masks x reversed x multi-term x instances x defines x nonbond subsets).",
         "note": TRUST + "sqrt/root6 axiomatised (x>=0 => r>=0 and r^n = x). gen_bonded_interactions' per-molecule expansion and define substitution are decided by the bounded unit only. Known finding K8.",
         "technique": P_TECH + "; " + B_TECH},
 "C10": {"level": "other",
         "text": "Deductive: find_connecting_edges returns only molecule edges from an atom of the first residue to an atom of the second and returns a non-empty list whenever such an edge exists (four loop invariants, ghost index witnesses); find_missing_edges reports a residue-graph edge if and only if no atom-level edge joins the two residues, with both names and ids, once per edge ('never both and never neither', loop invariant over the edge sequence) - for every residue graph whose residues are disjoint sub-graphs of the molecule. Bounded: independent recount of inter-residue atom edges vs find_missing_edges / gen_params warnings (realised XOR reported, once, right names) on 41 force fields x 234 residue-graph worlds; connectivity gate on 53 topologies.",
         "note": TRUST + "networkx Graph modelled as node table + symmetric adjacency relation; G.edges as a ghost sequence listing every adjacent pair once; degree uninterpreted with the degree lemma assumed in the body proof and certified in lean/Degree.lean (thorough tier); the generator is taken as the list of its yields. The warning loop of gen_params and the connectivity gate of gen_coords are decided by the bounded unit only. Known finding K13 (atom-level disconnection inside a connected residue graph is built).",
         "technique": P_TECH + "; " + B_TECH},
 "C11": {"level": "other",
         "text": "Bounded only: gen_params -> file -> polyply's own reader on 56 worlds (all interaction sections incl. #ifdef/#ifndef guards, chains and branches); atoms, interactions, guards, residue graph isomorphism, and gen_coords accepting the file. The writer/reader round trip is vermouth code, outside the reach of contracts on polyply functions.",
         "note": "No proof claimed; vermouth write_molecule_itp/read_itp exercised, not verified.",
         "technique": B_TECH},
 "C12": {"level": "other",
         "text": "Bounded only so far: every sequence of length <= 5 over each alphabet with every line breaking through the real parsers, every letter of every one-letter table, circular/linear .ig, JSON round trip, 14k gen_seq macro/connect/termini worlds incl. both index orders, against the graph spelled out by the statement.",
         "note": "No proof claimed yet (string-loop contracts planned).",
         "technique": B_TECH},
 "C15": {"level": "other",
         "text": 'Deductive: the six GROMACS constructions vs2, vs3, vs3fd, vs3fad, vs3out, vs4fdn and the centre of geometry vsn1 (1-4 defining atoms) of virtual_site_builder are proved equal, for all real positions and parameters with non-degenerate geometry, to the construction formulas of the GROMACS reference manual written out in the contract; the (section, function) dispatch table read from the source is the GROMACS numbering. Bounded: template sharing by labelled-graph isomorphism, centring, optimisation verdict vs tolerances, user templates/volumes precedence, positivity.',
         "note": TRUST + "numpy dot/cross/norm/average modelled term by term over mathematical reals; sqrt, sin, cos uninterpreted. Template extraction, sharing and volumes are decided by the bounded unit only. Known findings K4-K6.",
         "technique": P_TECH + "; " + B_TECH},
 "C16": {"level": "other",
         "text": "Deductive: _lennard_jones_force equals -V'(r) (point-ref)/r for the 12-6 potential (sympy re-derives V'), pbc_min_dist equals the norm of the per-component minimum images, and the metric laws (symmetric, periodic, <= direct distance, <= half box) follow from the frac lemma schemas. Bounded: every add/remove/consolidate history of length <= 2 (multi-tree world: <= 3 with the real add_positions' threshold lowered by AST rewrite) against a brute-force periodic reference.",
         "note": TRUST + "frac lemma schemas (range, negation, integer shift, frac u <= u for u >= 0) are certified against Mathlib in lean/Frac.lean when Lean is run (thorough); the representation invariant of the mutators is decided by the bounded unit only; scipy KDTree exercised, not verified.",
         "technique": P_TECH + "; " + B_TECH},
 "C17": {"level": "other",
         "text": "Deductive: RandomWalk._rewind (exact slice semantics) and the main loop of RandomWalk._random_walk are proved against a loop invariant for EVERY success/failure schedule and rewind depth, unboundedly: recorded placements are exactly the build steps below the step counter, the engine holds exactly the supplied residues plus the recorded ones, other molecules are untouched, each step grows from a positioned neighbour, and at normal exit every residue is positioned. Bounded: 63k scripted schedules through the real BuildSystem/RandomWalk/NonBondEngine incl. abandoned attempts and every subset of pre-positioned residues.",
         "note": TRUST + "Assumed (trusted) contracts inside the proof: NonBondEngine.add_positions/remove_positions over the abstract view posd (decided for the concrete engine by C16's units), update_positions as seen by its caller, search-tree facts of networkx dfs/bfs trees (each node target of one edge, parent-closed, rooted at the start residue), monotonicity of the ghost counting function (proved by a separate base/step lemma). Termination not claimed. BuildSystem._handle_random_walk/_compose_system are decided by the bounded unit only.",
         "technique": P_TECH + "; " + B_TECH},
 "C18": {"level": "other",
         "text": 'Deductive: BuildDirector._tag_nodes is proved against the statement for every residue name and resid range (loop invariant over the node dictionary, unbounded): exactly the residues with the given name and a resid in [start, stop) receive the option, once, appended to earlier ones; all other residues and attributes are unchanged. Bounded: 7k build files with overlapping/adjacent/empty molecule-index and resid ranges on a topology with repeated names, 320 residue-spec strings with every subset of fields omitted, every connected partition of a 2-4 atom residue for -split, ligand attach/hand-back through the real BuildSystem.',
         "note": TRUST + "Parsing of the build file lines, find_atoms for -start/-split and ligand annotation are decided by the bounded unit only. Known findings K1-K3.",
         "technique": P_TECH + "; " + B_TECH},
 "C19": {"level": "other",
         "text": "Deductive (table lemma): BASE_LIBRARY read from the real source is an involution on the nucleobase names, closed, without fixed points, and pairs A-T and G-C for every 5'/3'/internal variant. Bounded (exhaustive within the bound): every DNA sequence of length 1-5 (thorough 7), linear through three input routes and circular, against the statement: 2n residues, strand one unchanged, residue n+k complements residue n+1-k with 5'/3' exchanged, labels copied, strands separate, double complement recovers the input, unknown names rejected.",
         "note": "complement_dsDNA itself is a generator over a graph it mutates (outside pyvc's subset): decided by the bounded unit only.",
         "technique": P_TECH + "; " + B_TECH},
 "C20": {"level": "other",
         "text": 'Deductive (static, over the real ASTs read on every run, with assumed effect contracts of the vermouth writer): in gen_params and gen_coords the only effect on the output path is the DeferredFileWriter flush and every processing stage call precedes it; in gen_seq the open(.., "w") follows graph generation; the first effect is not inside a loop. Bounded: an exception is injected on entry to and on return from every stage of gen_params (13), gen_coords (16) and gen_seq (6) with the output path absent / present / present with an existing backup; the whole scratch directory is compared byte-wise before and after; success leaves the complete file and a GROMACS-style backup.',
         "note": "vermouth DeferredFileWriter exercised by the bounded unit, not verified; the effect classification of callees (which functions may write) is a stated table in contracts/effects.py.",
         "technique": P_TECH + "; " + B_TECH},
}

CLAIMS.update({
 "C01": {"level": "other",
         "text": "Bounded only so far: 56k generated worlds (89 force fields in .ff and polyply .itp syntax incl. multi-residue from_itp blocks and terminal modifications x every connected residue graph <= 4 nodes x every resname assignment x resid offsets {1,7}) through MapToMolecule -> ApplyLinks -> ApplyModifications against the statement (each residue a verbatim re-indexed copy of its block, block interactions once per instance, only link/mod targets differ).",
         "note": "No proof claimed yet. Known findings K14, K15, F11 (multi-residue block placement).",
         "technique": B_TECH},
 "C03": {"level": "other",
         "text": "Bounded only so far: 1974 gen_coords runs over every ordered choice of 1-3 molecule types x counts, the complete product of -box/-dens/-c/-mc/-b/-res/-grid/-start options on three topologies, 2 seeds: atom list/order/names, finiteness, box precedence and density box.",
         "note": "No proof claimed yet (box precedence / _compute_box_size contracts planned). vermouth write_gro exercised.",
         "technique": B_TECH},
 "C04": {"level": "other",
         "text": "Bounded only so far: every expressible split of four systems into given / centre-only / missing residues, -res rebuilding, -ign at every position, and every set of <= 2 scripted placement failures; supplied atoms compared bit-for-bit, centres at 1e-6. (The random-walk side - supplied residues never touched, other molecules untouched - is proved in C17's units.)",
         "note": "No proof claimed here. Known finding F2 (-ign indexing).",
         "technique": B_TECH},
 "C05": {"level": "other",
         "text": "Deductive: pbc_complete / not_exceeds_max_dimensions, _take_step (one of the given vectors, scaled, wrapped into [0, box)), the loop of RandomWalk.update_positions (engine untouched while trying; an accepted point passed all five guards, is the only change, step = step_fudge * sigma(prev, cur); a failed placement changes nothing) and the lemmas 'a wrapped step differs by an integer number of box lengths' and 'a wrapped step of a unit vector with |step| <= box/2 keeps its length under the minimum image convention'. Bounded: 632 finished systems recomputed independently (step lengths, box, grid start, 0.1 nm floor).",
         "note": TRUST + "The guards are named predicates inside this proof (their geometric meaning is proved in C07's units, the force/0.1 nm floor of compute_force_point is decided by the bounded units of C05/C16). Engine methods appear with the abstract contracts that C16 proves for the concrete engine (refinement lemma).",
         "technique": P_TECH + "; " + B_TECH},
 "C07": {"level": "other",
         "text": "Deductive: in_sphere / in_rectangle / in_cylinder accept a point only on the demanded side of the body (geometric meaning written from the statement), fulfill_geometrical_constraints accepts only if every declared restraint holds (loop invariant over any number of restraints, dispatch table included), is_restricted only if the step has the sign of the reference angle and its angle to the normal is within |ref|, checks_milestones only if every distance restraint holds under the minimum image distance. Bounded: 432 finished structures vs build file (all restraint kinds, rings 3-8 with -cycles, persistence sampling).",
         "note": TRUST + "arccos/degrees uninterpreted; set_distance_restraint's bounds and persistence sampling are decided by the bounded unit only.",
         "technique": P_TECH + "; " + B_TECH},
 "C13": {"level": "other",
         "text": "Bounded only: metamorphic contract canon(pipeline(t(x))) == canon(pipeline(x)) over 27k (world, transformation) pairs: node insertion order, key relabelling, edge orientation/order, definition order inside files, file order, file splitting, 1-2 unrelated runs before in the same process. A two-run relation is outside what per-function contracts express; determinism-over-a-canonical-view contracts are planned.",
         "note": "No proof claimed. Known findings F11, K15, K17, K18 (and K9/K11 under C02).",
         "technique": B_TECH},
 "C14": {"level": "other",
         "text": "Bounded only so far: 17k worlds (144 force fields with every nrexcl combination in {1,2,3}, explicit exclusions, both syntaxes x all residue graphs <= 4): every atom pair recounted against the bond graph: excluded iff distance <= nrexcl of the block of one of them or explicitly excluded; uniform nrexcl invents nothing.",
         "note": "No proof claimed yet. Known finding K16.",
         "technique": B_TECH},
})
CLAIMS["C16"]["text"] = ("Deductive: the representation invariant of NonBondEngine (positioned residues = keys of gndx_to_tree = entries of exactly one index list, each tree holds exactly the rows of its index list) is ESTABLISHED by __init__ and concatenate_trees and PRESERVED by add_positions (both branches incl. the >5000 new-tree branch and re-adding a positioned residue) and remove_positions (any list of residues, trees rebuilt for every touched list), with the view postconditions 'last position given' / 'undefined after removal' / 'nothing else changes'; get_point returns the stored row; a refinement lemma derives the abstract contracts the callers use. _lennard_jones_force = -V'(r)(point-ref)/r (sympy re-derives V'), pbc_min_dist = norm of per-component minimum images, metric laws from the frac schemas. Bounded: every history of length <= 2 (multi-tree world <= 3, tree threshold lowered by AST rewrite) against a brute-force periodic reference, which also exercises compute_force_point (neighbour set, exclusions, 0.1 nm floor) that is not under contract.")
CLAIMS["C16"]["note"] = TRUST + "Ghost fields (_gslot, _gstale, _gwhere) updated by ghost hooks keyed to statements; KD-tree assumed to be the sequence of its rows; np.where idiom modelled (increasing list of defined indices); frac lemma schemas certified against Mathlib in lean/Frac.lean (run in the thorough tier); compute_force_point decided by the bounded unit only."
CLAIMS["C17"]["note"] = TRUST + "Inside the proof of _random_walk: update_positions is used with the contract its own body is proved to meet (C05 unit), _rewind likewise; NonBondEngine.add_positions/remove_positions appear over the abstract view posd, which C16 proves for the concrete engine (refinement lemma); search-tree facts of networkx dfs/bfs trees (each node target of one edge, parent-closed, rooted at the start residue) and _find_starting_node are assumed; monotonicity of the ghost counting function is proved by a separate base/step lemma. Termination not claimed. BuildSystem._handle_random_walk/_compose_system are decided by the bounded unit only."

CLAIMS["C03"]["text"] = "Deductive: _compute_box_size returns the edge with edge^3 * density = 1.6605410 * total mass, the total defined by recursion over the expanded molecule list and the atoms of each molecule with 'the [ atoms ] mass if the column is present (0 included), else the atom-type mass' (two nested loop invariants; the KeyError path is proved unreachable when every atom has one of the two). " + CLAIMS["C03"]["text"].replace("Bounded only so far: ", "Bounded: ")
CLAIMS["C03"]["technique"] = P_TECH + "; " + B_TECH
CLAIMS["C03"]["note"] = TRUST + "cube root axiomatised (r^3 = x); box precedence, atom list/order and finiteness are decided by the bounded unit only."
CLAIMS["C14"]["text"] = "Deductive: tag_exclusions writes nothing for a uniform exclusion distance and otherwise tags every involved block with its ORIGINAL distance and sets nrexcl to the minimum, all other blocks untouched (two loop invariants over the node->block table; blocks shared by several residues handled through alias semantics). " + CLAIMS["C14"]["text"].replace("Bounded only so far: ", "Bounded: ")
CLAIMS["C14"]["technique"] = P_TECH + "; " + B_TECH
CLAIMS["C14"]["note"] = TRUST + "networkx.set_node_attributes modelled for a uniform value; expand_excl / neighborhood (graph distances) are decided by the bounded unit only. Known finding K16."
CLAIMS["C06"]["text"] = CLAIMS["C06"]["text"].split("'other' because")[0] + "Bounded: the real Backmap on 5.4k hand-made worlds (8 residue types incl. chiral and virtual-site ones x every labelled tree/ring on <= 4 residues x built/unbuilt neighbours x scripted and real optimiser angles x factors) and 404 gen_coords worlds (templates from the real GenerateTemplates incl. the failed-optimisation path): centre, proper rotation by Kabsch fit + signed volume, congruence of all copies, own-atom-name, untouched residues, shared templates unmodified."
CLAIMS["C06"]["technique"] = P_TECH + "; " + B_TECH
CLAIMS["C17"]["text"] = CLAIMS["C17"]["text"].replace("Bounded: 63k", "BuildSystem._handle_random_walk is proved to leave the engine EXACTLY as it was when a molecule is abandoned (every residue of the discarded attempts removed, supplied residues and all other molecules untouched) and to return a fully positioned molecule otherwise, for any number of retries (loop invariant; RandomWalk construction and run_molecule executed at the call site, _random_walk through its proved contract). Bounded: 63k")
CLAIMS["C17"]["note"] = CLAIMS["C17"]["note"].replace("BuildSystem._handle_random_walk/_compose_system are decided by the bounded unit only.", "The engine shared between BuildSystem and the RandomWalk it constructs is an alias; pyvc has value semantics, so the sharing is made explicit by a ghost hook after the two statements that mutate it through the walker (A-ALIAS). _handle_random_walk is proved for rwargs = {} (RandomWalk defaults). BuildSystem._compose_system is decided by the bounded unit only.")
CLAIMS["C04"]["text"] = CLAIMS["C04"]["text"].replace("(The random-walk side - supplied residues never touched, other molecules untouched - is proved in C17's units.)", "The clause 'a failed placement attempt never alters or discards supplied coordinates' is proved in C17's units (_random_walk: only residues of this molecule that have to be built may change; _handle_random_walk: an abandoned attempt restores the engine exactly).")
NOT_CLAIMED = {}
NOTES = ("See DESIGN.md. Properties listed under not_applicable with the reason 'check not finished' are unclaimed work in progress, "
         "not judged inapplicable. level 'other' everywhere: each check combines deductive units (counted in coverage.obligations/discharged) "
         "with bounded stand-ins (coverage.evaluations), and no property is yet carried entirely by discharged obligations.")

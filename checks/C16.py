"""C16 -- the neighbour engine always reflects exactly the currently positioned residues."""
from vlib.framework import PUnit, LUnit, BUnit, LeanUnit
from contracts import nonbond as N
from bounded import engine_histories
from contracts import engine_rep as ER


def build(tier, seed):
    units = [
        PUnit("lj-force", [N.LJ], N.REG),
        LUnit("lj-derivative-sympy", N.lemma_lj_derivative),
        PUnit("pbc-min-dist", [N.PBC_MIN_DIST], N.REG),
        LeanUnit("frac-schemas-certificate", "lean/Frac.lean"),
        LUnit("min-image-laws", N.lemma_min_image_laws),
        LUnit("min-image-scaling", N.lemma_min_image_scaling),
        LUnit("norm-monotone", N.lemma_norm_monotone),
        PUnit("engine-remove-positions", [ER.REMOVE], ER.REG),
        PUnit("engine-add-positions", [ER.ADD], ER.REG),
        PUnit("engine-get-point", [ER.GET_POINT], ER.REG),
        PUnit("engine-concatenate-trees", [ER.CONCAT], ER.REG),
        PUnit("engine-init", [ER.INIT], ER.REG),
        LUnit("engine-refinement", ER.lemma_refinement),
        BUnit("engine-histories", engine_histories.run),
    ]
    return {"units": units, "level": "other", "notes": "pyvc"}

"""C15 (see DESIGN.md section 6)."""
from vlib.framework import PUnit, LUnit, BUnit, LeanUnit
from bounded import b_build as B
from contracts import virtual_sites as VS

from contracts import templates as TP
P_UNITS = [PUnit("virtual-site-constructions", VS.CONTRACTS, VS.REG), PUnit("template-relative-to-centre", TP.CONTRACTS, TP.REG), LUnit("virtual-site-dispatch-table", VS.lemma_dispatch_table),
           LeanUnit("zero-centre-certificate", "lean/Centroid.lean")]


def build(tier, seed):
    units = list(P_UNITS) + [u for u in B.UNITS if u.name in "c15-templates".split()]
    return {"units": units, "level": "other", "notes": "bounded stand-in (executable contracts on the real functions); see evidence units"}

"""C10 -- every residue-graph edge is realised by a bond or reported as missing (see DESIGN.md section 6 and 11)."""
from vlib.framework import PUnit, LUnit, BUnit, LeanUnit
from bounded import b_links as B
from contracts import graph_utils as G

P_UNITS = [PUnit("connecting-and-missing-edges", G.CONTRACTS, G.REG),
           LeanUnit("degree-lemma-certificate", "lean/Degree.lean")]


def build(tier, seed):
    units = list(P_UNITS) + [u for u in B.UNITS if u.name in "c10-edges-or-warning".split()]
    return {"units": units, "level": "other", "notes": "pyvc contracts on graph_utils + bounded stand-in for the warning loop and the connectivity gate"}

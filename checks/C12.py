"""C12 -- sequence inputs produce exactly the specified residue graph (see DESIGN.md section 6 and 11)."""
from vlib.framework import PUnit, LUnit, BUnit
from bounded import b_seq as B
from contracts import sequences as S
from contracts import metamol_init as MI

P_UNITS = [PUnit("seq-option-linear-chain", S.CONTRACTS, S.REG),
           PUnit("file-reader-linear-chain", [S.LINEAR_NX], S.REG2),
           PUnit("metamolecule-constructor", MI.CONTRACTS, MI.REG),
           PUnit("termini-of-a-residue-graph", [S.TERMINAL_NODES], S.REG3),
           PUnit("connect-records", [S.BLOCK_NODES, S.ADD_EDGES], S.REG4),
           LUnit("constructor-contract-is-init-postcondition", S.lemma_ctor_alias),
           LUnit("prefix-sum-monotone", S.lemma_ps_monotone)]


def build(tier, seed):
    units = list(P_UNITS) + [u for u in B.UNITS if u.name in "c12-sequence-inputs".split()]
    return {"units": units, "level": "other", "notes": "pyvc contract on the -seq route + bounded stand-in for the file formats and gen_seq"}

"""C07 -- build-file restraints hold for every residue they select."""
from vlib.framework import PUnit, LUnit, BUnit
from contracts import restraints as R
from contracts import random_walk as W
from bounded import b_coords


def build(tier, seed):
    units = [
        PUnit("geometric-predicates", [R.IN_SPHERE, R.IN_RECTANGLE, R.IN_CYLINDER], R.REG),
        PUnit("all-restraints-of-a-residue", [R.FULFILL_C], R.REG),
        PUnit("direction-restriction", [R.IS_RESTRICTED], R.REG),
        PUnit("distance-milestones", [R.MILESTONES_C], R.REG),
        PUnit("distance-restraint-bounds", [R.SET_DR], R.REG),
        PUnit("tree-path-to-the-reference", [R.ALL_PRED], R.REG_PRE),
        PUnit("accepted-point-passed-every-guard", [W.UPDATE_BODY], W.REG5),     # the guards are evaluated at the STORED (wrapped) point
        LUnit("min-image-distance-unique", R.lemma_min_image_unique),
        LUnit("accepted-point-meets-restraints", R.lemma_accepted_point_meets_restraints),
    ] + [u for u in b_coords.UNITS if u.name == "c07-restraints"]
    return {"units": units, "level": "other", "notes": "pyvc + bounded"}

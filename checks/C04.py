"""C04 (see DESIGN.md section 6)."""
from vlib.framework import PUnit, LUnit, BUnit
from bounded import b_coords as B
from contracts import backmap as BM
from contracts import coord_reader as CR
from contracts import random_walk as W

P_UNITS = [PUnit("coordinates-consumed-exactly", CR.CONTRACTS, CR.REG),
           PUnit("backmap-only-flagged-residues", BM.CONTRACTS, BM.REG),
           # 'a failed placement attempt never alters or discards supplied coordinates' / supplied residues are never re-placed:
           PUnit("walk-leaves-supplied-residues-alone", [W.RANDOM_WALK], W.REG),
           PUnit("abandoned-attempt-restores-the-engine", [W.HANDLE_WALK], W.REGH)]


def build(tier, seed):
    units = list(P_UNITS) + [u for u in B.UNITS if u.name in "c04-supplied-preserved".split()]
    return {"units": units, "level": "other", "notes": "bounded stand-in (executable contracts on the real functions); see evidence units"}

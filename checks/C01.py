"""C01 (see DESIGN.md section 6)."""
from vlib.framework import PUnit, LUnit, BUnit
from bounded import b_genparams as B

from contracts import modifications as M

from contracts import links as LK

P_UNITS = [PUnit("modification-target-by-resid", M.CONTRACTS, M.REG),
           LUnit("rejected-link-changes-nothing", LK.lemma_veto_before_effect),
           PUnit("default-terminal-targets", [M.TERMINI], M.REG_T),
           LUnit("modification-frame", M.lemma_mod_frame)]


def build(tier, seed):
    units = list(P_UNITS) + [u for u in B.UNITS if u.name in "c01-block-copies".split()]
    return {"units": units, "level": "other", "notes": "bounded stand-in (executable contracts on the real functions); see evidence units"}

"""C19 (see DESIGN.md section 6)."""
from vlib.framework import PUnit, LUnit, BUnit
from bounded import b_seq as B

from contracts import dna as D
from contracts import effects as E

P_UNITS = [LUnit("pairing-table", D.lemma_base_library),
           PUnit("complement-strand", [D.COMPLEMENT], D.REG),
           LUnit("completion-on-every-route", E.lemma_dsdna_route)]


def build(tier, seed):
    units = list(P_UNITS) + [u for u in B.UNITS if u.name in "c19-dsdna".split()]
    return {"units": units, "level": "other", "notes": "bounded stand-in (executable contracts on the real functions); see evidence units"}

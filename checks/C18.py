"""C18 (see DESIGN.md section 6)."""
from vlib.framework import PUnit, LUnit, BUnit
from bounded import b_build as B
from contracts import build_file as BF
from contracts import ligands as LG
from contracts import effects as E

P_UNITS = [PUnit("tag-nodes", [BF.TAG_NODES, BF.TAG_NODES_RW], BF.REG),
           PUnit("molecule-selection", [BF.PARSE_GEOMETRY, BF.FINALIZE], BF.REG),
           PUnit("residue-selection", [LG.FIND_NODES], LG.REG),
           PUnit("ligand-attachment", [LG.CONNECT], LG.REG),
           PUnit("start-residue-selection", [LG.START], LG.REG_S),
           LUnit("split-relabels-once", E.lemma_split_once)]


def build(tier, seed):
    units = list(P_UNITS) + [u for u in B.UNITS if u.name in "c18-selections".split()]
    return {"units": units, "level": "other", "notes": "bounded stand-in (executable contracts on the real functions); see evidence units"}

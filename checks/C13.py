"""C13 (see DESIGN.md section 6)."""
from vlib.framework import PUnit, LUnit, BUnit
from bounded import b_genparams as B

from contracts import history as H

P_UNITS = [LUnit("history-ownership", H.lemma_history)]


def build(tier, seed):
    units = list(P_UNITS) + [u for u in B.UNITS if u.name in "c13-relabel-reorder-history".split()]
    return {"units": units, "level": "other", "notes": "bounded stand-in (executable contracts on the real functions); see evidence units"}

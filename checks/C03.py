"""C03 (see DESIGN.md section 6)."""
from vlib.framework import PUnit, LUnit, BUnit
from bounded import b_coords as B
from contracts import build_system as BS
from contracts import effects as E

P_UNITS = [PUnit("density-box", [BS.BOX], BS.REG),
           PUnit("molecules-in-topology-order", [BS.TO_SYSTEM], BS.REG),
           PUnit("requested-or-density-box", [BS.INIT_BOX], BS.REG_B),
           LUnit("box-precedence", E.lemma_box_precedence)]


def build(tier, seed):
    units = list(P_UNITS) + [u for u in B.UNITS if u.name in "c03-output-structure".split()]
    return {"units": units, "level": "other", "notes": "bounded stand-in (executable contracts on the real functions); see evidence units"}

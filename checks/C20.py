"""C20 (see DESIGN.md section 6)."""
from vlib.framework import PUnit, LUnit, BUnit
from bounded import b_seq as B

from contracts import effects as E

P_UNITS = [LUnit("effect-order", E.lemma_effect_order)]


def build(tier, seed):
    units = list(P_UNITS) + [u for u in B.UNITS if u.name in "c20-outputs-after-success".split()]
    return {"units": units, "level": "other", "notes": "bounded stand-in (executable contracts on the real functions); see evidence units"}

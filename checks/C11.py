"""C11 (see DESIGN.md section 6)."""
from vlib.framework import PUnit, LUnit, BUnit
from bounded import b_build as B

from contracts import effects as E
from contracts import graph_utils as G

P_UNITS = [LUnit("write-is-unconditional", E.lemma_write_is_unconditional),
           # the loop that warns about missing links iterates find_missing_edges, which is proved not to raise on a well-formed residue graph
           PUnit("missing-link-scan-cannot-fail", G.CONTRACTS, G.REG)]


def build(tier, seed):
    units = list(P_UNITS) + [u for u in B.UNITS if u.name in "c11-itp-roundtrip".split()]
    return {"units": units, "level": "other", "notes": "bounded stand-in (executable contracts on the real functions); see evidence units"}

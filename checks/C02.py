"""C02 -- links are applied exactly where their definition matches (see DESIGN.md section 6 and 11)."""
from vlib.framework import PUnit, LUnit, BUnit
from bounded import b_links as B
from contracts import links as L
from contracts import effects as E

P_UNITS = [PUnit("link-atoms-identify-one-atom", L.CONTRACTS, L.REG),
           PUnit("relative-order-of-link-residues", [L.CHECK_ORDER], L.REG_ORD),
           LUnit("veto-before-effect", L.lemma_veto_before_effect),
           LUnit("version-tags-per-interaction-type", E.lemma_versions_per_type)]


def build(tier, seed):
    units = list(P_UNITS) + [u for u in B.UNITS if u.name in "c02-link-instances".split()]
    return {"units": units, "level": "other", "notes": "pyvc contracts on the atom-matching step + bounded stand-in for ApplyLinks as a whole"}

"""C08 -- a topology is read as its preprocessed, flattened equivalent."""
from vlib.framework import PUnit, LUnit, BUnit
from bounded import b_top as B

from contracts import top_finalize as TF

P_UNITS = [PUnit("molecules-section-expansion", TF.CONTRACTS, TF.REG),
           LUnit("molecule-count-prefix-sum", TF.lemma_ps_monotone)]


def build(tier, seed):
    units = list(P_UNITS) + [u for u in B.UNITS if u.name == "c08-flatten"]
    return {"units": units, "level": "other", "notes": "bounded stand-in; see evidence units"}

"""C05 -- generated residues are one step apart, inside the box, never overlapping."""
from vlib.framework import PUnit, LUnit, BUnit
from contracts import linalg as L
from contracts import random_walk as W
from bounded import b_coords, engine_histories


def build(tier, seed):
    units = [
        PUnit("box-wrapping", [L.PBC_COMPLETE, L.NOT_EXCEEDS], L.REG),
        LUnit("wrap-is-periodic-image", L.lemma_wrap_is_periodic_image),
        LUnit("step-length-preserved", L.lemma_step_length_preserved),
        LUnit("unit-step-norm", L.lemma_unit_step_norm),
        PUnit("take-step", [W.TAKE_STEP], W.REG5),
        PUnit("update-positions", [W.UPDATE_BODY], W.REG5),
        PUnit("start-residue-on-grid", [W.HANDLE_WALK], W.REGH),      # uses the contract of _random_walk, proved in C17's units
        BUnit("engine-histories-overlap-floor", engine_histories.run),
    ] + [u for u in b_coords.UNITS if u.name == "c05-steps-box-overlap"]
    return {"units": units, "level": "other", "notes": "pyvc"}

"""C06 -- backmapping places rigid, centred, same-handed copies of the residue template."""
from vlib.framework import PUnit, LUnit, BUnit, LeanUnit
from contracts import linalg as L
from contracts import backmap as BM
from bounded import b_backmap


def build(tier, seed):
    units = [
        PUnit("matrix-product", [L.MATMUL], L.REG),
        PUnit("rotate-xyz", [L.ROTATE], L.REG),
        LUnit("proper-rotation", L.lemma_proper_rotation),
        PUnit("place-init-coords", BM.CONTRACTS, BM.REG),
        LeanUnit("centre-of-geometry-certificate", "lean/Centroid.lean"),
    ] + list(b_backmap.UNITS)
    return {"units": units, "level": "other", "notes": "pyvc"}

"""C06 -- backmapping places rigid, centred, same-handed copies of the residue template."""
from vlib.framework import PUnit, LUnit, BUnit
from contracts import linalg as L
from contracts import backmap as BM
from bounded import b_backmap


def build(tier, seed):
    units = [
        PUnit("matrix-product", [L.MATMUL], L.REG),
        PUnit("rotate-xyz", [L.ROTATE], L.REG),
        LUnit("proper-rotation", L.lemma_proper_rotation),
        PUnit("place-init-coords", BM.CONTRACTS, BM.REG),
    ] + list(b_backmap.UNITS)
    return {"units": units, "level": "other", "notes": "pyvc"}

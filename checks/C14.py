"""C14 (see DESIGN.md section 6)."""
from vlib.framework import PUnit, LUnit, BUnit
from bounded import b_genparams as B
from contracts import map_to_molecule as MM
from contracts import exclusions as EX

P_UNITS = [PUnit("tag-exclusions", [MM.TAG_EXCL], MM.REG),
           PUnit("expand-exclusions", EX.CONTRACTS, EX.REG),
           LUnit("c14-statement-from-clauses", EX.lemma_c14_statement)]


def build(tier, seed):
    units = list(P_UNITS) + [u for u in B.UNITS if u.name in "c14-exclusions".split()]
    return {"units": units, "level": "other", "notes": "bounded stand-in (executable contracts on the real functions); see evidence units"}

"""C14 (see DESIGN.md section 6)."""
from vlib.framework import PUnit, LUnit, BUnit
from bounded import b_genparams as B
from contracts import map_to_molecule as MM

P_UNITS = [PUnit("tag-exclusions", [MM.TAG_EXCL], MM.REG)]


def build(tier, seed):
    units = list(P_UNITS) + [u for u in B.UNITS if u.name in "c14-exclusions".split()]
    return {"units": units, "level": "other", "notes": "bounded stand-in (executable contracts on the real functions); see evidence units"}

"""C17 -- failed placements are rolled back completely; accepted ones never move."""
from vlib.framework import PUnit, LUnit, BUnit
from contracts import random_walk as W
from contracts import compose as CS
from bounded import b_build


def build(tier, seed):
    units = [
        PUnit("rewind", [W.REWIND], W.REG),
        PUnit("random-walk-loop", [W.RANDOM_WALK], W.REG),
        LUnit("cnt-monotone", W.lemma_cnt_monotone),
        PUnit("handle-random-walk", [W.HANDLE_WALK], W.REGH),
        PUnit("compose-system", CS.CONTRACTS, CS.REG),
    ] + [u for u in b_build.UNITS if u.name == "c17-schedules"] + [
    ]
    return {"units": units, "level": "other", "notes": "pyvc"}

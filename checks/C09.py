"""C09 -- parameters are resolved as GROMACS preprocessing would resolve them."""
from vlib.framework import PUnit, LUnit, BUnit
from contracts import topology as T
from bounded import b_top
from vlib import selftest


def build(tier, seed):
    units = [
        PUnit("dihedral-matcher", [T.DIH], T.REG),
        LUnit("dihedral-direction", T.lemma_direction_independence),
        PUnit("combination-rules", [T.LB, T.GEO], T.REG),
        LUnit("combination-symmetry", T.lemma_comb_symmetric),
        PUnit("c6c12-to-sigma-epsilon", [T.CONV], T.REG),
        PUnit("define-substitution", [T.REPLACE_DEFINED], T.REG),
        LUnit("define-offsets-monotone", T.lemma_off_monotone),
        PUnit("nonbonded-pair-table", [T.GEN_PAIRS], T.REG),
        BUnit("engine-cross-check", selftest.unit),       # CPython vs the symbolic executor on concrete inputs (verifier self-check)
    ] + [u for u in b_top.UNITS if u.name == "c09-preprocess"]
    return {"units": units, "level": "other",
            "notes": "contract-based deductive verification (pyvc: VCs generated from the real AST, z3/cvc5)"}

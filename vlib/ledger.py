"""Obligation ledger (vacuity guard + proof-regression rule).

contracts/LEDGER.json records, for every function under contract, the SHA-256 of its source on the tree the
ledger was generated from, the hash of its module, and how many instances of each named obligation were discharged.

  * same function source, fewer contract-driven obligations than recorded  -> checker defect (exit 3): vacuity guard
  * changed source (function or module) and an obligation that was discharged on the recorded tree is now
    undecided (solver timeout / unknown) -> reported as a violation of that named obligation with the solver's
    reason attached and `no-failing-input-found` (the brief's minimum standard: "an obligation that passed on the
    unchanged tree and now fails"); with unchanged source the same situation is UNDECIDED (exit 2), never a violation.

  ./run py -m vlib.ledger update     regenerate from the current working tree (only do this on a tree where all
                                      registered checks exit 0)
"""
import hashlib
import json
import os
import sys

HERE = os.path.dirname(os.path.dirname(os.path.abspath(__file__)))
PATH = os.path.join(HERE, "contracts", "LEDGER.json")
_cache = None


def load():
    global _cache
    if _cache is None:
        if os.path.exists(PATH):
            with open(PATH) as fh:
                _cache = json.load(fh)
        else:
            _cache = {}
    return _cache


def module_sha(mod, qual=None, inlined=()):
    """hash of everything outside the function's own source that its VC depends on: module-level assignments whose
    names the function (or an inlined callee) mentions, and the sources of inlined callees"""
    import ast
    from pyvc import source
    parts = []
    todo = [(mod, qual)] if qual else []
    for key in inlined:
        m, q = key.split(":")
        try:
            todo.append((source.load(m), q))
        except Exception:
            parts.append("missing:" + key)
    for m, q in todo:
        fn = m.functions.get(q)
        if fn is None:
            parts.append("missing:" + str(q))
            continue
        if (m, q) != (mod, qual):
            parts.append(m.segment(fn))
        names = {n.id for n in ast.walk(fn) if isinstance(n, ast.Name)}
        for nm in sorted(names & set(m.assigns)):
            parts.append(nm + "=" + m.segment(m.assigns[nm]))
    return hashlib.sha256("\n".join(parts).encode()).hexdigest()


CORES_PATH = os.path.join(HERE, "contracts", "CORES.json")
_cores = None


def cores():
    """recorded proof cores: {"<pid>|<contract key>": {"sha256": ..., "module_sha256": ..., "cores": {obligation key: [hypothesis indices]}}}"""
    global _cores
    if _cores is None:
        if os.path.exists(CORES_PATH):
            with open(CORES_PATH) as fh:
                _cores = json.load(fh)
        else:
            _cores = {}
    return _cores


def save_cores():
    with open(CORES_PATH, "w") as fh:
        json.dump(cores(), fh, indent=0, sort_keys=True)


def entry_key(pid, target):
    return f"{pid}|{target}"


def record(pid, target, sha, modsha, counts, inlined):
    led = load()
    led[entry_key(pid, target)] = {"sha256": sha, "module_sha256": modsha, "discharged": counts, "inlined": inlined}


def save():
    save_cores()
    with open(PATH, "w") as fh:
        json.dump(load(), fh, indent=1, sort_keys=True)


def lookup(pid, target):
    return load().get(entry_key(pid, target))


if __name__ == "__main__":
    if len(sys.argv) > 1 and sys.argv[1] == "update":
        import importlib
        from vlib import framework
        from vlib import ledger as L
        os.environ["VERIF_LEDGER_UPDATE"] = "1"
        old = json.load(open(PATH)) if os.path.exists(PATH) else {}
        L._cache = {}
        pids = sys.argv[2:] or sorted(f[:-3] for f in os.listdir(os.path.join(HERE, "checks")) if f.startswith("C") and f[1:3].isdigit() and f.endswith(".py"))
        for pid in pids:
            mod = importlib.import_module(f"checks.{pid}")
            spec = mod.build("quick", 0)
            ctx = framework.Ctx(pid, "quick", 0)
            for u in spec["units"]:
                if isinstance(u, framework.PUnit):
                    u.run(ctx)
            print("ledger updated for", pid)
        for k, v in old.items():
            if k.split("|")[0] not in pids:
                L._cache[k] = v
        L.save()

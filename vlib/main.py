"""./run check Cxx [--tier quick|thorough]   |   ./run replay <path>"""
import argparse
import importlib
import json
import os
import sys
import traceback

from .framework import run_check, VERIF


def main():
    ap = argparse.ArgumentParser()
    ap.add_argument("cmd", choices=["check", "replay"])
    ap.add_argument("target")
    ap.add_argument("--tier", default=os.environ.get("VERIF_TIER", "quick"), choices=["quick", "thorough"])
    ap.add_argument("--only", default=None, help="comma separated unit names (development)")
    a = ap.parse_args()
    seed = int(os.environ.get("VERIF_SEED", "0") or 0)
    if a.cmd == "replay":
        from .replay import replay
        sys.exit(replay(a.target))
    pid = a.target
    try:
        mod = importlib.import_module(f"checks.{pid}")
        spec = mod.build(a.tier, seed)
        units = spec["units"]
        if a.only:
            keep = set(a.only.split(","))
            units = [u for u in units if u.name in keep]
        rc = run_check(pid, units, a.tier, seed, level=spec["level"], notes=spec.get("notes"),
                       assumptions=spec.get("assumptions", ()))
    except Exception:
        print("CHECKER-ERROR:", traceback.format_exc())
        rc = 3
    sys.exit(rc)


if __name__ == "__main__":
    main()

"""Replay a stored violation: show the stored counterexample and re-derive the failed obligation on the
current working tree (the unit is re-run; it replays the solver's model against the real code)."""
import json
import subprocess
import sys
import os


def replay(path):
    with open(path) as fh:
        rec = json.load(fh)
    print(json.dumps({k: rec.get(k) for k in ("property", "unit", "failed", "replayed_on_real_code", "inputs", "detail")}, indent=1)[:6000])
    here = os.path.dirname(os.path.dirname(os.path.abspath(__file__)))
    p = subprocess.run([sys.executable, "-m", "vlib.main", "check", rec["property"], "--only", rec["unit"]], cwd=here)
    return p.returncode

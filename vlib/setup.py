"""./run setup: the overlay venv is built by ./run itself; here we only smoke-test the tool chain."""
import sys
import z3
import cvc5      # noqa: F401
import deal      # noqa: F401
import polyply   # noqa: F401
print("setup ok: z3", z3.get_version_string(), "polyply from", polyply.__file__)
sys.exit(0)

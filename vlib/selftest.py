"""CPython cross-check of the symbolic executor (pyvc/engine.py, ops.py, methods.py, prelude.py).

For contracts whose parameters are plain data, random concrete inputs that satisfy the contract's `requires` are generated; the REAL
function is run by CPython, and the SAME source is run by pyvc's interpreter on the same (lifted) values.  Outcome (returned value or
exception class) must agree -- exactly for integers / strings / booleans, to 1e-9 for reals (pyvc computes with exact rationals and
uninterpreted sqrt / sin / cos, evaluated numerically afterwards).  A disagreement is a defect of the verifier (exit 3), never a
property violation.

  ./run selftest [n_samples_per_function] [seed]
"""
import copy
import importlib
import math
import random
import sys
import traceback

import z3

EXC = ["KeyError", "IndexError", "ValueError", "TypeError", "ZeroDivisionError", "OSError", "IOError", "AttributeError", "MatchError", "StopIteration"]
WORDS = ["A", "B", "C", "X", "P1", "in", "out", "sphere", "rectangle", "cylinder", "1", "2", "9", "GX", "kb", "0.5"]


def contracts():
    out = []
    for modname in ("contracts.topology", "contracts.linalg", "contracts.nonbond", "contracts.restraints", "contracts.virtual_sites",
                    "contracts.modifications", "contracts.exclusions"):
        try:
            m = importlib.import_module(modname)
        except Exception:
            continue
        regs = [getattr(m, n) for n in dir(m) if n.startswith("REG")]
        seen = set()
        for name in dir(m):
            c = getattr(m, name)
            if type(c).__name__ == "Contract" and not c.trusted and id(c) not in seen and "self" not in c.params:
                seen.add(id(c))
                reg = next((r for r in regs if any(v is c for v in r.values())), regs[0] if regs else {})
                out.append((c, reg))
        for c in getattr(m, "CONTRACTS", []):
            if type(c).__name__ == "Contract" and id(c) not in seen and not c.trusted and "self" not in c.params:
                seen.add(id(c))
                out.append((c, regs[0] if regs else {}))
    return out


def gen(t, rnd, depth=0):
    from pyvc import types as T
    import numpy as np
    n = type(t).__name__
    if n == "TIntT":
        return rnd.randint(-2, 6)
    if n == "TRealT":
        return rnd.choice([rnd.randint(-16, 24) / 8.0, rnd.randint(1, 16) / 4.0, 0.0, 1.0])
    if n == "TBoolT":
        return rnd.random() < 0.5
    if n == "TStrT":
        return rnd.choice(WORDS)
    if n == "TConst":
        return copy.deepcopy(t.value)
    if n == "TNodeT":
        return rnd.randint(0, 5)                  # node keys: small integers
    if n == "TObjT":
        return Token(rnd.randint(0, 3))
    if n == "TMat":
        ncols = rnd.randint(1, 3)
        return np.array([[gen(T.TReal, rnd) for _ in range(ncols)] for _ in range(t.rows)], dtype=float)
    if n == "TSet":
        return {_hashable(gen(t.k, rnd, depth + 1)) for _ in range(rnd.randint(0, 4))}
    if n == "TTuple":
        return tuple(gen(x, rnd, depth + 1) for x in t.ts)
    if n == "TVec":
        return np.array([gen(T.TReal, rnd) for _ in range(int(np.prod(t.shape)))], dtype=float).reshape(t.shape)
    if n == "TOpt":
        return None if rnd.random() < 0.3 else gen(t.t, rnd, depth + 1)
    if n == "TList":
        return [gen(t.t, rnd, depth + 1) for _ in range(rnd.randint(0, 3))]
    if n in ("TDict", "TODict"):
        return {_hashable(gen(t.k, rnd, depth + 1)): gen(t.v, rnd, depth + 1) for _ in range(rnd.randint(0, 3))}
    if n == "TRec" and t.cls == "nx.Graph" or (n == "TRec" and "nodes" in t.fields and "adj" in t.fields):
        nodes = {k: gen(t.fields["nodes"].v, rnd, depth + 1) for k in rnd.sample(range(6), rnd.randint(0, 5))}
        keys = sorted(nodes)
        adj = set()
        for a in keys:
            for b in keys:
                if a < b and rnd.random() < 0.4:
                    adj |= {(a, b), (b, a)}
        out = {f: gen(ft, rnd, depth + 1) for f, ft in t.fields.items() if f not in ("nodes", "adj")}
        out.update(nodes=nodes, adj=adj)
        return out
    if n == "TRec" and t.cls == "restraint_list":
        kind = rnd.choice(["sphere", "cylinder", "rectangle"])
        out = {f: gen(ft, rnd, depth + 1) for f, ft in t.fields.items()}
        out["kind"] = kind
        out["in_out"] = rnd.choice(["in", "out"])
        return out
    if n == "TRec":
        return {f: gen(ft, rnd, depth + 1) for f, ft in t.fields.items()}
    raise NotImplementedError(n)


class Token:
    """an opaque python object (stands for values the contracts treat as uninterpreted objects)"""

    def __init__(self, k):
        self.k = k

    def __eq__(self, other):
        return isinstance(other, Token) and other.k == self.k

    def __hash__(self):
        return hash(("Token", self.k))

    def __repr__(self):
        return f"<obj{self.k}>"


def lift_t(x, t, eng):
    """python value -> engine value, directed by the descriptor type (nodes and opaque objects become distinct z3 constants)"""
    from pyvc import types as T
    from pyvc.types import Rec, Opt, CList, NArr, SDict, SSet, SMat, key_term, key_sort_of
    from pyvc.concretise import lift
    import numpy as np
    n = type(t).__name__
    if n == "TNodeT":
        return eng._st_nodes.setdefault(("n", x), z3.Const(f"node_{x}", T.TNode.sort))
    if n == "TObjT":
        return eng._st_nodes.setdefault(("o", repr(x)), z3.Const(f"obj_{len(eng._st_nodes)}", T.TObj.sort))
    if n == "TOpt":
        return Opt(True, t.t.fresh("absent")) if x is None else Opt(False, lift_t(x, t.t, eng))
    if n == "TTuple":
        return tuple(lift_t(e, s, eng) for e, s in zip(x, t.ts))
    if n == "TList":
        if getattr(eng, "_lists_symbolic", False):
            from pyvc.types import to_slist
            return to_slist(CList(lift_t(e, t.t, eng) for e in x), t.t)      # conformance: specification helpers are written for SList
        return CList(lift_t(e, t.t, eng) for e in x)
    if n == "TRec":
        return Rec(t.cls, {f: lift_t(x[f], ft, eng) for f, ft in t.fields.items()})
    if n == "TConst":
        return x
    if n == "TMat":
        a = np.asarray(x, dtype=float)
        comps = []
        for r in range(a.shape[0]):
            arr = z3.K(z3.IntSort(), z3.RealVal(0))
            for j in range(a.shape[1]):
                arr = z3.Store(arr, j, lift(float(a[r, j])).term() if hasattr(lift(float(a[r, j])), "term") else z3.RealVal(str(a[r, j])))
            comps.append(arr)
        return SMat(a.shape[0], a.shape[1], comps)
    if n in ("TDict", "TDefaultDict", "TODict"):
        ks = key_sort_of(t.k)
        dom = z3.K(ks, False)
        comps = [z3.K(ks, z3.FreshConst(srt, "d")) for srt in t.v.sorts()]
        for k, v in x.items():
            kt = key_term(t.k, lift_t(k, t.k, eng))
            dom = z3.Store(dom, kt, True)
            comps = [z3.Store(c, kt, f) for c, f in zip(comps, t.v.flat(lift_t(v, t.v, eng)))]
        return SDict(t.k, t.v, dom, comps)
    if n == "TSet":
        ks = key_sort_of(t.k)
        dom = z3.K(ks, False)
        for k in x:
            dom = z3.Store(dom, key_term(t.k, lift_t(k, t.k, eng)), True)
        return SSet(t.k, dom)
    return lift(x, t)


def realize(x, t):
    """generated data -> the python objects the real function expects"""
    import types as pytypes
    import numpy as np
    n = type(t).__name__
    if x is None:
        return None
    if n == "TOpt":
        return realize(x, t.t)
    if n == "TTuple":
        return tuple(realize(e, s) for e, s in zip(x, t.ts))
    if n == "TList":
        return [realize(e, t.t) for e in x]
    if n in ("TDict", "TDefaultDict", "TODict"):
        return {k: realize(v, t.v) for k, v in x.items()}
    if n == "TRec":
        if "nodes" in t.fields and "adj" in t.fields:
            import networkx as nx
            g = nx.Graph()
            for k, attrs in x["nodes"].items():
                g.add_node(k, **realize(attrs, t.fields["nodes"].v))
            g.add_edges_from((a, b) for a, b in x["adj"] if a < b)
            for f, ft in t.fields.items():
                if f not in ("nodes", "adj"):
                    setattr(g, f, realize(x[f], ft))
            return g
        if set(t.fields) == {"nodes"} and ":" in t.cls:
            import networkx as nx
            g = nx.Graph()
            for k, attrs in x["nodes"].items():
                g.add_node(k, **{f: v for f, v in realize(attrs, t.fields["nodes"].v).items()})
            return g
        if t.cls == "restraint_list":
            k = x["kind"]
            tail = {"sphere": [x["a"]], "cylinder": [x["a"], x["b"]], "rectangle": [x["a"], x["b"], x["c"]]}[k]
            return [x["in_out"], np.array(x["centre"], dtype=float)] + tail + [k]
        if t.cls == "nodeattrs":
            return {f: realize(v, t.fields[f]) for f, v in x.items() if v is not None}
        if t.cls == "Monomer":
            return pytypes.SimpleNamespace(**{f: realize(v, t.fields[f]) for f, v in x.items()})
        if t.cls == "Interaction":
            return pytypes.SimpleNamespace(**{f: realize(v, t.fields[f]) for f, v in x.items()})
        if ":" not in t.cls:
            # a mapping-like record: an optional field that is absent is a key that is not there
            return {f: realize(v, t.fields[f]) for f, v in x.items() if not (v is None and type(t.fields[f]).__name__ == "TOpt")}
        raise NotImplementedError(f"record {t.cls}")
    return x


def _hashable(x):
    return tuple(x) if isinstance(x, list) else x


def to_py(v):
    """engine value -> comparable python value"""
    from pyvc import numeval
    from pyvc.ops import F
    from pyvc.types import NArr, CList, Rec, Opt
    import numpy as np
    if isinstance(v, (bool, int, str)) or v is None:
        return v
    if isinstance(v, F):
        return float(v.q)
    if isinstance(v, (tuple,)):
        return tuple(to_py(x) for x in v)
    if isinstance(v, (CList, list)):
        return [to_py(x) for x in v]
    if isinstance(v, NArr):
        return np.array([to_py(x) for x in v.data], dtype=float).reshape(v.shape)
    from pyvc.types import SList, SMat, slist_get
    if isinstance(v, SList):
        n = to_py(v.n)
        return [to_py(slist_get(v, i)) for i in range(int(n))]
    if isinstance(v, SMat):
        nc = int(to_py(v.ncols))
        return np.array([[to_py(v.comps[r][j]) for j in range(nc)] for r in range(v.rows)], dtype=float)
    if isinstance(v, Opt):
        none = to_py(v.none)
        return None if none else to_py(v.val)
    if isinstance(v, Rec):
        return {f: to_py(x) for f, x in v.fields.items()}
    if z3.is_expr(v):
        s = z3.simplify(v)
        if z3.is_true(s):
            return True
        if z3.is_false(s):
            return False
        if z3.is_int_value(s):
            return s.as_long()
        if z3.is_string_value(s):
            return s.as_string()
        if z3.is_const(s) and s.decl().kind() == z3.Z3_OP_UNINTERPRETED and str(s).startswith("node_"):
            return int(str(s)[5:])
        try:
            return float(numeval.evaluate(s, {}))
        except numeval.CannotEvaluate as e:
            raise NotImplementedError(f"symbolic result (a callee is used through its contract): {e}")
    raise NotImplementedError(type(v).__name__)


def same(a, b):
    import numpy as np
    if isinstance(a, (np.bool_,)):
        a = bool(a)
    if isinstance(b, (np.bool_,)):
        b = bool(b)
    if isinstance(a, bool) or isinstance(b, bool):
        return bool(a) == bool(b)
    if isinstance(a, (int, float, np.floating, np.integer)) and isinstance(b, (int, float, np.floating, np.integer)):
        a, b = float(a), float(b)
        if math.isnan(a) or math.isnan(b) or math.isinf(a) or math.isinf(b):
            return str(a) == str(b)
        return abs(a - b) <= 1e-9 * (1 + abs(a) + abs(b))
    if isinstance(a, np.ndarray) or isinstance(b, np.ndarray):
        a, b = np.asarray(a, dtype=float), np.asarray(b, dtype=float)
        return a.shape == b.shape and bool(np.all(np.abs(a - b) <= 1e-9 * (1 + np.abs(a) + np.abs(b))))
    if isinstance(a, (list, tuple)) and isinstance(b, (list, tuple)):
        return len(a) == len(b) and all(same(x, y) for x, y in zip(a, b))
    if isinstance(a, dict) and isinstance(b, dict):
        return set(a) == set(b) and all(same(a[k], b[k]) for k in a)
    if hasattr(b, "parameters") and isinstance(a, dict) and "parameters" in a:          # interaction object vs record
        return same(a["parameters"], list(b.parameters))
    if isinstance(a, (list, tuple)) and isinstance(b, (list, tuple)) is False and hasattr(b, "__iter__"):
        return same(list(a), list(b))
    return a == b


def run_engine(contract, registry, args):
    from pyvc import source
    from pyvc.engine import Engine, Frame, ReturnEx, PyRaise
    from pyvc.concretise import lift
    mod = source.load(contract.module)
    fnode = mod.functions[contract.qual]
    eng = Engine(registry)
    eng.contract = contract
    eng.label = "selftest"
    eng.allowed_raises = list(EXC)
    out = {}

    eng._st_nodes = {}

    def run():
        env = {p: lift_t(copy.deepcopy(args[p]), t, eng) for p, t in contract.params.items()}
        consts = {}
        for (kind, _k), c in eng._st_nodes.items():
            consts.setdefault(kind, []).append(c)
        for group in consts.values():
            if len(group) > 1:
                eng.assume(z3.Distinct(*group))
        eng.frames.append(Frame(mod, contract.qual, env))
        eng.bind_defaults(fnode, env, mod)
        eng.entry_env0 = dict(env)
        try:
            eng.ex_block(fnode.body)
            out["r"] = ("return", None, env)
        except ReturnEx as r:
            out["r"] = ("return", r.value, env)
        except PyRaise as e:
            out["r"] = ("raise", e.cls, env)
        return out["r"][0]
    done = eng.explore(run)
    if len(done) != 1:
        return ("nondeterministic", len(done), None)
    return out["r"]


def requires_hold(contract, registry, args, lists_symbolic=False):
    from pyvc.engine import Engine
    from pyvc.concretise import lift
    eng = Engine(registry)
    eng.contract = contract
    eng._st_nodes = {}
    eng._lists_symbolic = lists_symbolic
    env = {p: lift_t(copy.deepcopy(args[p]), t, eng) for p, t in contract.params.items()}
    hyps = []
    for kind in ("n", "o"):
        group = [c for (k0, _k), c in eng._st_nodes.items() if k0 == kind]
        if len(group) > 1:
            hyps.append(z3.Distinct(*group))
    for name, req in contract.requires:
        v = eng.spec_eval(req, env, old_env=env)
        if isinstance(v, bool):
            ok = v
        else:
            s = z3.Solver()
            s.set("timeout", 2000)
            for h in hyps:
                s.add(h)
            s.add(z3.Not(v))
            ok = s.check() == z3.unsat
        if not ok:
            return False
    return True


def main(argv):
    n = int(argv[0]) if argv else 60
    seed = int(argv[1]) if len(argv) > 1 else 1
    from pyvc.concretise import real_function
    from pyvc.types import Unsupported
    total = agree = 0
    skipped = {}
    bad = []
    for c, reg in contracts():
        rnd = random.Random(f"{seed}/{c.target}/{c.instance}")
        try:
            fn = real_function(c.target)
        except Exception as e:
            skipped[c.qual] = f"no real function: {e}"
            continue
        ran = 0
        tries = 0
        while ran < n and tries < 40 * n:
            tries += 1
            try:
                args = {p: gen(t, rnd) for p, t in c.params.items()}
            except NotImplementedError as e:
                skipped[c.qual] = f"parameter type not generated: {e}"
                break
            except Exception as e:                      # noqa: BLE001
                skipped[c.qual] = f"input generation failed: {type(e).__name__}: {e}"
                break
            try:
                if not requires_hold(c, reg, args):
                    continue
            except Exception as e:
                skipped[c.qual] = f"requires not evaluable on concrete data: {type(e).__name__}: {e}"
                break
            real_args = copy.deepcopy(args)
            try:
                real_args = c.adapt(real_args) if c.adapt else {p: realize(v, c.params[p]) for p, v in real_args.items()}
            except NotImplementedError as e:
                skipped[c.qual] = f"no adapter to real objects: {e}"
                break
            try:
                from pyvc import source as _src
                fnode_ = _src.load(c.module).functions[c.qual]
                va = fnode_.args.vararg.arg if fnode_.args.vararg else None
                if va and va in real_args:
                    rest = {k: v for k, v in real_args.items() if k != va}
                    r = fn(*real_args[va], **rest)
                else:
                    r = fn(**real_args)
                real = ("return", r)
            except Exception as e:                      # noqa: BLE001
                real = ("raise", "OSError" if type(e).__name__ == "IOError" else type(e).__name__)
            try:
                kind, val, env = run_engine(c, reg, args)
            except Unsupported as e:
                skipped[c.qual] = f"engine: unsupported on concrete data: {e}"
                break
            except Exception as e:                      # noqa: BLE001
                frames = traceback.extract_tb(e.__traceback__)
                if frames and "/contracts/" in frames[-1].filename.replace("\\", "/") or (len(frames) > 1 and "/contracts/" in frames[-2].filename):
                    # a specification helper (loop invariant) written for symbolic lists met a concrete one: nothing about the interpreter
                    skipped[c.qual] = f"specification helper not applicable to concrete data: {type(e).__name__}: {e}"
                    break
                bad.append((c.qual, args, real, f"engine crashed: {type(e).__name__}: {e}"))
                break
            if kind == "nondeterministic":
                skipped[c.qual] = "engine explores several paths on concrete data (randomised function)"
                break
            ran += 1
            total += 1
            try:
                if kind != real[0]:
                    ok = False
                elif kind == "raise":
                    ok = (val == real[1]) or {val, real[1]} <= {"OSError", "IOError"}
                else:
                    ok = same(to_py(val), real[1]) if real[1] is not None or val is not None else True
            except NotImplementedError as e:
                skipped[c.qual] = f"result not comparable: {e}"
                break
            except Exception as e:                      # noqa: BLE001
                if "symbolic result" in str(e) or "CannotEvaluate" in type(e).__name__:
                    skipped[c.qual] = f"result not comparable: {e}"
                    total -= 1
                    ran -= 1
                    break
                ok = False
                val = f"{val!r} ({type(e).__name__}: {e})"
            if ok:
                agree += 1
            else:
                bad.append((c.qual + (f"#{c.instance}" if c.instance else ""), {k: repr(v)[:120] for k, v in args.items()}, real, (kind, repr(val)[:200])))
        if ran and c.qual not in skipped:
            print(f"  {c.qual + ('#' + c.instance if c.instance else ''):55s} {ran:4d} inputs agree" if not [b for b in bad if b[0].startswith(c.qual)] else f"  {c.qual:55s} DISAGREEMENT")
    for q, why in skipped.items():
        print(f"  skipped {q}: {why}")
    print(f"selftest: {agree}/{total} concrete executions agree between CPython and pyvc's interpreter; {len(bad)} disagreement(s)")
    for b in bad[:10]:
        print("  DISAGREEMENT", b)
    main.last = {"agree": agree, "total": total, "bad": [repr(b)[:600] for b in bad[:5]], "skipped": dict(skipped)}
    clauses, cbad, cskipped = conformance(max(5, n // 2), seed)
    main.last.update({"clauses": clauses, "false_clauses": [repr(b)[:600] for b in cbad[:5]], "conf_skipped": dict(cskipped)})
    return 3 if bad or cbad else 0


def unit(ctx, res):
    """as a unit of a check (thorough tier): a disagreement is a defect of the verifier, reported as a checker error"""
    import contextlib
    import io
    buf = io.StringIO()
    with contextlib.redirect_stdout(buf):
        rc = main(["60" if ctx.thorough else "10", str(ctx.seed or 1)])
    info = getattr(main, "last", {})
    res.evaluations += info.get("total", 0)
    res.nontrivial += info.get("agree", 0)
    res.bound = "CPython vs pyvc interpreter on random concrete inputs satisfying the contracts' preconditions (functions with plain-data parameters)"
    res.rule = "same returned value (exact for integers, strings, booleans; 1e-9 for reals) or same exception class"
    res.assumptions.append("engine cross-check skipped for: " + "; ".join(f"{k} ({v[:60]})" for k, v in info.get("skipped", {}).items()))
    res.evaluations += info.get("clauses", 0)
    res.nontrivial += info.get("clauses", 0) - len(info.get("false_clauses", []))
    res.rule += "; every postcondition of a contract (proved or ASSUMED, e.g. the model of networkx.single_source_shortest_path) is true of the real function's outcome"
    res.assumptions.append("specification conformance skipped for: " + "; ".join(f"{k} ({v[:60]})" for k, v in info.get("conf_skipped", {}).items()))
    if info.get("bad"):
        res.errors.append("pyvc's interpreter disagrees with CPython: " + " | ".join(info.get("bad", [])))
    if info.get("false_clauses"):
        res.errors.append("a contract clause is false on an outcome of the real function (wrong specification or library model): " + " | ".join(info["false_clauses"]))




# ------------------------------------------------------------------------------------------------------------------------------
# conformance of specifications and library models: the postconditions of contracts (proved ones and ASSUMED ones of library
# functions) are evaluated on the outcome of the REAL function for random concrete inputs.  A clause that is false on a real
# outcome means the specification (or the model of the library behind it) is wrong -- a checker defect.

def unrealize(v, t):
    """real result -> generated-data form (for flat_py)"""
    import networkx as nx
    n = type(t).__name__
    if v is None:
        return None
    if n == "TList":
        return [unrealize(e, t.t) for e in v]
    if n == "TTuple":
        return tuple(unrealize(e, s) for e, s in zip(v, t.ts))
    if n in ("TDict", "TDefaultDict", "TODict"):
        return {k: unrealize(x, t.v) for k, x in v.items()}
    if n == "TRec" and set(t.fields) == {"nodes"} and isinstance(v, nx.Graph):
        return {"nodes": {k: {f: (unrealize(d.get(f), ft) if f in d else None) for f, ft in t.fields["nodes"].v.fields.items()} for k, d in v.nodes(data=True)}}
    if n == "TRec" and hasattr(v, "_fields") and hasattr(v, "_asdict"):
        d_ = v._asdict()
        return {f: unrealize(d_.get(f), ft) for f, ft in t.fields.items()}
    if n == "TRec" and not isinstance(v, (dict, nx.Graph)) and hasattr(v, "__dict__"):
        return {f: unrealize(getattr(v, f, None), ft) for f, ft in t.fields.items()}
    if n == "TOpt":
        return None if v is None else unrealize(v, t.t)
    if n == "TRec" and "nodes" in t.fields and "adj" in t.fields and isinstance(v, nx.Graph):
        out = {"nodes": {k: {f: (d.get(f) if f in d else None) for f in t.fields["nodes"].v.fields} for k, d in v.nodes(data=True)},
               "adj": {(a, b) for a, b in v.edges} | {(b, a) for a, b in v.edges}}
        for f, ft in t.fields.items():
            if f == "eattr":
                out[f] = {(min(a, b), max(a, b)): dict(d) for a, b, d in v.edges(data=True)}
            elif f not in ("nodes", "adj"):
                out[f] = unrealize(getattr(v, f, None), ft)
        return out
    if n == "TRec" and isinstance(v, dict) and not ("nodes" in t.fields and "adj" in t.fields):
        return {f: unrealize(v.get(f), ft) for f, ft in t.fields.items()}
    return v


def uf_interpretations(universe):
    """meanings of the uninterpreted symbols used by graph contracts, computed from the concrete adjacency functions"""
    def degree(adj, x):
        return sum(1 for y in universe if adj((x, y))) + (1 if adj((x, x)) else 0)

    def bfs(adj, a):
        dist, frontier = {a: 0}, [a]
        while frontier:
            nxt = []
            for u in frontier:
                for w in universe:
                    if w not in dist and adj((u, w)):
                        dist[w] = dist[u] + 1
                        nxt.append(w)
            frontier = nxt
        return dist
    return {"nx_degree": degree,
            "bond_graph_distance": lambda adj, a, b: bfs(adj, a).get(b, 10 ** 6),
            "bond_graph_connected": lambda adj, a, b: b in bfs(adj, a)}


def conformance(n=40, seed=1):
    import networkx as nx
    from pyvc.concretise import flat_py, real_function, CannotConcretise
    from pyvc.engine import Engine
    from pyvc import numeval
    universe = list(range(6))
    cases = []
    import glob
    import os
    here = os.path.dirname(os.path.dirname(os.path.abspath(__file__)))
    for modname in sorted("contracts." + os.path.basename(f)[:-3] for f in glob.glob(os.path.join(here, "contracts", "*.py")) if not f.endswith("__init__.py")):
        try:
            m = importlib.import_module(modname)
        except Exception:
            continue
        for reg in [getattr(m, x) for x in dir(m) if x.startswith("REG")]:
            for c in [c_ for vs_ in getattr(reg, "variants", {}).values() for c_ in vs_] or list(reg.values()):
                if not (c.ensures or c.raises):
                    continue
                if ("self" in c.params or c.exposes) and not (c.witness and c.adapt and getattr(c, "unadapt", None)):
                    continue            # methods / exposed locals need a witness generator and adapters between data and real objects
                if c.modifies and not all(m.split(".")[0] in c.params for m in c.modifies):
                    continue            # a frame on something that is not a parameter
                if any("_" + g.lstrip("_") in str(e) for g in c.ghost_locals for _n, e in c.ensures if g not in c.exposes):
                    continue            # the postcondition mentions ghost state that the adapters cannot supply
                cases.append((c, reg))
    seen, clauses, bad, skipped = set(), 0, [], {}
    for c, reg in cases:
        if (c.target, c.instance) in seen:
            continue
        seen.add((c.target, c.instance))
        rnd = random.Random(f"conf/{seed}/{c.target}")
        try:
            if ":" in c.target and c.module.startswith("polyply"):
                fn = real_function(c.target)
            else:
                fn = getattr(importlib.import_module(c.module), c.qual)
        except Exception as e:                          # noqa: BLE001
            skipped[c.target] = f"no real function: {e}"
            continue
        ran = 0
        for _ in range(20 * n):
            if ran >= n:
                break
            try:
                ghosts = {}
                if c.witness:
                    args, ghosts = c.witness(rnd)       # shaped inputs + values of the ghost parameters of the specification
                else:
                    args = {p: gen(t, rnd) for p, t in c.params.items()}
                    try:
                        ok_req = requires_hold(c, reg, args)
                    except AttributeError:
                        ok_req = requires_hold(c, reg, args, lists_symbolic=True)
                    if not ok_req:
                        continue
                if getattr(c, "ghost_interp", None):
                    ghosts = dict(ghosts, **c.ghost_interp(args))      # meaning of the contract's ghost functions for these inputs
                real_args = c.adapt(copy.deepcopy(args)) if c.adapt else {p: realize(copy.deepcopy(v), c.params[p]) for p, v in args.items()}
            except Exception as e:                      # noqa: BLE001
                skipped[c.target] = f"inputs: {type(e).__name__}: {e}"
                break
            try:
                if "cls" in real_args and type(c.params.get("cls")).__name__ == "TConst":
                    real_args = {k_: v_ for k_, v_ in real_args.items() if k_ != "cls"}      # classmethod: the class is bound already
                call_args = getattr(c, "call", None)
                res = call_args(fn, real_args) if call_args else fn(**real_args)
                res = list(res) if hasattr(res, "__next__") else res
            except Exception as e:                      # noqa: BLE001
                if any(type(e).__name__ == x or (x == "OSError" and isinstance(e, OSError)) for x in c.raises_when):
                    continue            # an exception the contract allows (its condition is a statement about locals: not evaluated here)
                raised_real = [(x, cond) for x, cond in c.raises if type(e).__name__ == x or (x == "OSError" and isinstance(e, OSError))]
                if raised_real:
                    res = None          # checked below: the contract's raise condition must hold of the inputs
                elif type(e).__name__ in ("NetworkXError", "NodeNotFound", "KeyError") and not c.module.startswith("polyply"):
                    continue            # library precondition (e.g. source not in graph) not expressed in the assumed contract: input skipped
                else:
                    skipped[c.target] = f"real function raised {type(e).__name__}: {e}"
                    break
            else:
                raised_real = None
            try:
                from pyvc import ops as _ops
                uni = list(universe) + sorted(_ops.INTERNED) + list(ghosts.get("__names__", []))
                def _maxlen(v, d=0):
                    if d > 6:
                        return 0
                    if isinstance(v, dict):
                        return max([len(v)] + [_maxlen(x, d + 1) for x in v.values()])
                    if isinstance(v, (list, tuple, set)):
                        return max([len(v)] + [_maxlen(x, d + 1) for x in v])
                    if hasattr(v, "interactions") and isinstance(getattr(v, "interactions"), dict):
                        return _maxlen(v.interactions, d + 1)
                    return 0
                win = range(-1, int(ghosts.get("__window__", min(40, max(8, 3 + _maxlen([args, res, list(real_args.values())]))))))
                sym_env, assign = {}, {"__universe__": {"Node": uni, "Key_Int_Int": [(a, b) for a in win for b in win],
                                                         "Key_Node_Node": [(a, b) for a in uni for b in uni]}}
                assign.update(uf_interpretations(universe))
                assign.update({"name:" + s: s for s in _ops.INTERNED})
                assign.update({k: v for k, v in ghosts.items() if not k.startswith("__")})
                for p, t in c.params.items():
                    v = t.fresh(p)
                    sym_env[p] = v
                    for term, val in zip(t.flat(v), flat_py(t, args[p])):
                        assign[term.decl().name()] = val
                post_env = dict(sym_env)
                after = c.unadapt(real_args, res) if getattr(c, "unadapt", None) else {}
                for p in sorted({m.split(".")[0] for m in c.modifies} | (set(after) & set(c.params))):
                    t = c.params[p]
                    v = t.fresh(p + "_after")
                    post_env[p] = v
                    data = after[p] if p in after else unrealize(real_args[p], t)
                    for term, val in zip(t.flat(v), flat_py(t, data)):
                        assign[term.decl().name()] = val
                if c.result is not None:
                    rv = c.result.fresh("result")
                    post_env["result"] = rv
                    data = after["result"] if "result" in after else unrealize(res, c.result)
                    for term, val in zip(c.result.flat(rv), flat_py(c.result, data)):
                        assign[term.decl().name()] = val
                else:
                    post_env["result"] = None
                for gname, gtype in c.exposes.items():
                    gv = gtype.fresh("exposed_" + gname)
                    post_env[gname] = gv
                    for term, val in zip(gtype.flat(gv), flat_py(gtype, after["exposes"][gname])):
                        assign[term.decl().name()] = val
                e2 = Engine(reg)
                e2.contract = c
                for exc, cond in c.raises:
                    # sound and complete raise conditions: true of the inputs exactly when the real function raised that exception
                    val = e2.spec_eval(cond, sym_env, old_env=sym_env)
                    holds = val if isinstance(val, bool) else bool(numeval.evaluate(val, assign, window=win))
                    want = raised_real is not None and any(x == exc for x, _c in raised_real)
                    clauses += 1
                    if holds != want:
                        bad.append((c.target, f"raises {exc} exactly when its condition holds (condition {holds}, raised {want})", {k: repr(v)[:150] for k, v in args.items()}, repr(res)[:150]))
                if raised_real is not None:
                    ran += 1
                    continue
                for name, ens in c.ensures:
                    val = e2.spec_eval(ens, post_env, old_env=sym_env)
                    ok = val if isinstance(val, bool) else bool(numeval.evaluate(val, assign, window=win))
                    clauses += 1
                    if not ok:
                        bad.append((c.target, name, {k: repr(v)[:600] for k, v in args.items()}, repr(res)[:150]))
                ran += 1
            except (numeval.CannotEvaluate, CannotConcretise, NotImplementedError, KeyError, TypeError, AttributeError) as e:
                skipped[c.target] = f"clauses not evaluable on concrete data: {type(e).__name__}: {e}"
                break
        if ran:
            print(f"  conformance {c.target:60s} {ran:3d} outcomes satisfy the {'ASSUMED' if c.trusted else 'proved'} contract"
                  if not [b for b in bad if b[0] == c.target] else f"  conformance {c.target} VIOLATED")
    for k, v in skipped.items():
        print(f"  conformance skipped {k}: {v[:160]}")
    print(f"conformance: {clauses} clause evaluations on real outcomes, {len(bad)} false")
    for b in bad[:8]:
        print("  FALSE CLAUSE", b)
    return clauses, bad, skipped


if __name__ == "__main__":
    try:
        sys.exit(main(sys.argv[1:]))
    except Exception:
        traceback.print_exc()
        sys.exit(3)

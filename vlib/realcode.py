"""Import polyply modules from the tree under verification (PYVC_REPO, default /repo)."""
import importlib
import os
import sys
import logging

REPO = os.environ.get("PYVC_REPO", "/repo")


def load(modname):
    if sys.path[0] != REPO:
        sys.path.insert(0, REPO)
    logging.disable(logging.CRITICAL)
    pkg = sys.modules.get("polyply")
    if pkg is not None and not os.path.realpath(pkg.__file__).startswith(os.path.realpath(REPO) + os.sep):
        for k in [k for k in sys.modules if k == "polyply" or k.startswith("polyply.")]:
            del sys.modules[k]
    return importlib.import_module(modname)

"""Check framework: a property check is a list of units.
  PUnit  -- contracts on real functions, verified by pyvc for all inputs (tier P, counted as proved)
  LUnit  -- lemma over contracts / spec functions (pure SMT obligations, tier P)
  BUnit  -- bounded stand-in: executable contracts on the real functions over an enumerated space
            (tier B, labelled bounded, never counted as proved)
Exit codes: 0 held, 1 violation (VIOLATION line), 2 undecided, 3 checker defect.
"""
import json
import os
import sys
import time
import traceback
import hashlib

import z3

VERIF = os.path.dirname(os.path.dirname(os.path.abspath(__file__)))
REPO = os.environ.get("PYVC_REPO", "/repo")
sys.path.insert(0, VERIF)

from pyvc import source, solver                                   # noqa: E402
from pyvc.contract import verify_function, Contract, Registry      # noqa: E402
from pyvc.types import Unsupported, VerifierError                  # noqa: E402
from pyvc.engine import Obligation                                 # noqa: E402


class Violation:
    def __init__(self, unit, what, obligation=None, inputs=None, detail=None, replayed=False, finding_key=None):
        self.unit, self.what, self.obligation = unit, what, obligation
        self.inputs, self.detail, self.replayed = inputs, detail, replayed
        self.finding_key = finding_key or what


class UnitResult:
    def __init__(self, name, tier):
        self.name, self.tier = name, tier
        self.obligations = 0
        self.discharged = 0
        self.functions = []          # per-function dicts (P)
        self.evaluations = 0         # B
        self.nontrivial = 0
        self.distinct = 0
        self.samples = []
        self.violations = []
        self.undecided = []
        self.errors = []
        self.trusted = set()
        self.assumptions = []
        self.bound = None
        self.exhaustive = None
        self.rule = None
        self.wall = 0.0
        self.solver_time = 0.0
        self.backends = {}


class Ctx:
    def __init__(self, pid, tier, seed):
        self.pid, self.tier, self.seed = pid, tier, seed
        self.timeout_ms = 20000 if tier == "quick" else 60000
        self.scratch = None

    @property
    def thorough(self):
        return self.tier == "thorough"


def ckey(c):
    """ledger key of a contract: several contracts may instantiate one function (e.g. per arity)"""
    return c.target + ("#" + c.instance if getattr(c, "instance", None) else "")


class PUnit:
    """contracts verified by pyvc"""
    tier = "P"

    def __init__(self, name, contracts, registry, replay=None, lemmas=()):
        self.name, self.contracts, self.registry, self.replay = name, contracts, registry, replay or {}
        self.lemmas = list(lemmas)

    def run(self, ctx):
        res = UnitResult(self.name, "P")
        t0 = time.time()
        from vlib import ledger
        updating = os.environ.get("VERIF_LEDGER_UPDATE") == "1"
        for c in self.contracts:
            rep = verify_function(c, self.registry, label_prefix=f"{ctx.pid}/")
            fn = {"function": c.target, "sha256": rep.sha, "paths": rep.paths, "inlined": getattr(rep, "inlined", []),
                  "obligations": 0, "discharged": 0, "kinds": {}}
            res.functions.append(fn)
            led = ledger.lookup(ctx.pid, ckey(c))
            try:
                modsha = ledger.module_sha(source.load(c.module), c.qual, list(getattr(rep, "inlined", [])) + list(c.inline_callees))
            except Exception:
                modsha = None
            changed = led is not None and (led["sha256"] != rep.sha or led["module_sha256"] != modsha)
            fn["source_changed_since_ledger"] = changed
            if rep.error:
                res.undecided.append(f"UNSUPPORTED {c.target}: {rep.error}")
                continue
            if getattr(rep, "stale_ghost", None):
                # a ghost update is anchored to the source text of a statement; when that statement was renamed or rewritten the update is
                # not made and the invariants that speak about the ghost state cannot hold: that is a stale contract, not a verdict on the code
                res.undecided.append(f"STALE CONTRACT {c.target}: ghost anchor(s) {rep.stale_ghost} no longer occur in the function body "
                                     f"(statement renamed or rewritten); re-anchor the contract -- undecided, not a violation")
                continue
            if not rep.obligations:
                res.errors.append(f"zero obligations generated for {c.target} (vacuous contract)")
                continue
            for vc in getattr(rep, "vacuous_calls", []):
                res.errors.append(f"vacuity guard: in {c.target}: {vc}")
            ck = ledger.entry_key(ctx.pid, ckey(c))
            centry = ledger.cores().get(ck)
            usable = centry is not None and centry.get("sha256") == rep.sha and centry.get("module_sha256") == modsha
            fresh = {} if updating else None
            solver.discharge(rep, timeout_ms=ctx.timeout_ms, cores=centry["cores"] if usable else None, record=fresh)
            if updating:
                ledger.cores()[ck] = {"sha256": rep.sha, "module_sha256": modsha, "cores": fresh}
            fn["proof_cores_replayed"] = sum(1 for ob in rep.obligations if "recorded proof core" in (ob.backend or ""))
            res.trusted |= set(rep.trusted_used)
            for ax_name, _ax in getattr(c, "axioms", []):
                res.trusted.add(f"axiom assumed in the proof of {c.qual}: {ax_name}")
            if c.note and c.note not in res.assumptions:
                res.assumptions.append(f"{c.qual}: {c.note}")
            for rq_name, _rq in c.requires:
                a = f"precondition of {c.qual} (an obligation at every call site under contract, ASSUMED of all other callers): {rq_name}"
                if a not in res.assumptions:
                    res.assumptions.append(a)
            counts = {}
            for ob in rep.obligations:
                res.obligations += 1
                fn["obligations"] += 1
                res.solver_time += ob.time
                res.backends[ob.backend] = res.backends.get(ob.backend, 0) + 1
                fn["kinds"][ob.kind] = fn["kinds"].get(ob.kind, 0) + 1
                fn["solver_time_s"] = round(fn.get("solver_time_s", 0.0) + ob.time, 3)
                fn["symbolic_execution_s"] = round(rep.wall, 3)
                if ob.time > fn.get("slowest_obligation_s", 0.0):
                    fn["slowest_obligation_s"], fn["slowest_obligation"] = round(ob.time, 3), ob.oid
                short = ob.oid.split("/", 1)[1]
                if ob.status == "unsat":
                    res.discharged += 1
                    fn["discharged"] += 1
                    counts[short] = counts.get(short, 0) + 1
                elif ob.status == "sat":
                    res.violations.append(self.make_violation(ctx, c, rep, ob))
                else:
                    reason = getattr(ob, "reason", "unknown")
                    if changed and led["discharged"].get(short, 0) > 0:
                        v = self.make_violation(ctx, c, rep, ob)
                        v.detail = (f"obligation discharged on the ledger tree (sha {led['sha256'][:12]}) is no longer discharged on the changed "
                                    f"source (sha {str(rep.sha)[:12]}); solver: {reason}")
                        v.obligation["solver_reason"] = reason
                        res.violations.append(v)
                    else:
                        res.undecided.append(f"UNDECIDED {ob.oid} (line {ob.line}): {reason}")
            if led is not None and not changed and not updating:
                driven = {k: v for k, v in led["discharged"].items() if k.split(":")[0].split("/")[-1] in ("post", "inv.init", "inv.preserved", "pre@call", "raises.sound", "raises.complete")}
                now = {ob.oid.split("/", 1)[1] for ob in rep.obligations}
                missing = [k for k in driven if k not in now]
                if missing:
                    res.errors.append(f"vacuity guard: {c.target} unchanged since the ledger but obligations {missing[:3]} were not generated")
            if updating:
                ledger.record(ctx.pid, ckey(c), rep.sha, modsha, counts, getattr(rep, "inlined", []))
            if len(res.samples) < 6:
                for ob in rep.obligations[:2]:
                    res.samples.append({"obligation": ob.oid, "line": ob.line, "kind": ob.kind, "status": ob.status,
                                        "backend": ob.backend, "time_s": round(ob.time, 4),
                                        "goal": str(ob.goal)[:300]})
        for lem in self.lemmas:
            lem(ctx, res)
        res.wall = time.time() - t0
        return res

    def make_violation(self, ctx, c, rep, ob):
        hook = self.replay.get(c.target)
        if hook is None and "self" not in c.params:
            from pyvc.concretise import generic_replay
            hook = generic_replay(c)
        inputs, detail, replayed = None, None, False
        model_txt = model_text(ob.model)
        if hook is not None:
            try:
                out = hook(ob, rep)
                if out is not None:
                    replayed, inputs, detail = out
            except Exception as e:      # a replay defect must not hide the verdict
                detail = f"replay hook failed: {type(e).__name__}: {e}"
        return Violation(self.name, f"{ob.oid}@L{ob.line}", obligation={"id": ob.oid, "line": ob.line, "kind": ob.kind,
                         "goal": str(ob.goal)[:2000], "model": model_txt, "backend": ob.backend, "function": c.target,
                         "sha256": rep.sha}, inputs=inputs, detail=detail, replayed=replayed,
                         finding_key=f"{c.qual}/{ob.kind}:{ob.oid.split(':', 1)[1]}")


def model_text(m):
    if m is None:
        return None
    try:
        return {str(d): str(m[d])[:400] for d in m.decls()}
    except Exception:
        return str(m)[:2000]


class LUnit:
    """pure SMT lemma(s): fn(ctx) -> list of (name, hyps, goal) or Obligation objects"""
    tier = "P"

    def __init__(self, name, fn, replay=None):
        self.name, self.fn, self.replay = name, fn, replay

    def run(self, ctx):
        res = UnitResult(self.name, "P")
        t0 = time.time()
        out = self.fn(ctx)
        facts = None
        if isinstance(out, tuple):
            out, facts = out
        for item in out:
            if isinstance(item, Obligation):
                ob = item
            else:
                name, hyps, goal = item
                ob = Obligation(f"{ctx.pid}/{self.name}/lemma:{name}", "lemma", list(hyps), goal, 0)
            solver.check(ob, facts, timeout_ms=ctx.timeout_ms)
            res.obligations += 1
            res.solver_time += ob.time
            res.backends[ob.backend] = res.backends.get(ob.backend, 0) + 1
            if ob.status == "unsat":
                res.discharged += 1
            elif ob.status == "sat":
                inputs, detail, replayed = None, None, False
                if self.replay:
                    try:
                        r = self.replay(ob)
                        if r is not None:
                            replayed, inputs, detail = r
                    except Exception as e:
                        detail = f"replay hook failed: {type(e).__name__}: {e}"
                res.violations.append(Violation(self.name, ob.oid, obligation={"id": ob.oid, "kind": "lemma", "goal": str(ob.goal)[:2000],
                                      "model": model_text(ob.model), "backend": ob.backend}, inputs=inputs, detail=detail,
                                      replayed=replayed, finding_key=ob.oid.split("/", 1)[1]))
            else:
                res.undecided.append(f"UNDECIDED {ob.oid}: {getattr(ob, 'reason', 'unknown')}")
            if len(res.samples) < 4:
                res.samples.append({"obligation": ob.oid, "kind": "lemma", "status": ob.status, "backend": ob.backend,
                                    "time_s": round(ob.time, 4), "goal": str(ob.goal)[:300]})
        res.wall = time.time() - t0
        return res


class LeanUnit:
    """certificate of a lemma schema the SMT proofs assume: a Lean 4 + Mathlib file checked by `lean`.  Run in the thorough tier only
    (2-3 minutes of Mathlib import); the quick tier records that the certificate exists and was not re-run.  A rejected certificate
    is a checker defect / undecided assumption, never a property violation."""
    tier = "P"

    def __init__(self, name, path):
        self.name, self.path = name, path

    def run(self, ctx):
        import re
        import shutil
        import subprocess
        res = UnitResult(self.name, "P")
        t0 = time.time()
        full = os.path.join(VERIF, self.path)
        try:
            text = open(full).read()
        except OSError:
            res.errors.append(f"certificate {self.path} is missing")
            return res
        theorems = re.findall(r"^theorem\s+(\S+)", text, re.M)
        if re.search(r"\b(sorry|admit)\b|^axiom\b", text, re.M):
            res.errors.append(f"certificate {self.path} contains sorry/admit/axiom")
            return res
        if not ctx.thorough:
            res.assumptions.append(f"{self.path}: {len(theorems)} Lean theorems ({', '.join(theorems)}) certify the lemma schema; not re-checked in the quick tier")
            res.wall = time.time() - t0
            return res
        lean = shutil.which("lean")
        if lean is None:
            res.assumptions.append(f"{self.path}: lean not found; certificate not re-checked")
            return res
        try:
            p = subprocess.run([lean, full], capture_output=True, text=True, timeout=1800)
        except subprocess.TimeoutExpired:
            res.undecided.append(f"UNDECIDED certificate {self.path}: lean timed out")
            return res
        res.obligations = len(theorems)
        out = p.stdout + p.stderr
        ok = p.returncode == 0 and not re.search(r"\berror\b", out)
        if ok:
            res.discharged = len(theorems)
            res.backends["lean-4 + Mathlib"] = len(theorems)
        else:
            res.undecided.append(f"UNDECIDED certificate {self.path}: lean rejected it: {out[-400:]}")
        res.solver_time = res.wall = time.time() - t0
        res.samples.append({"certificate": self.path, "theorems": theorems, "accepted": ok})
        return res


class BUnit:
    """bounded stand-in; fn(ctx, res) fills res (evaluations, nontrivial, samples, violations, bound...)"""
    tier = "B"

    def __init__(self, name, fn):
        self.name, self.fn = name, fn

    def run(self, ctx):
        res = UnitResult(self.name, "B")
        t0 = time.time()
        self.fn(ctx, res)
        res.wall = time.time() - t0
        return res


# ------------------------------------------------------------------------------------------

def load_findings():
    p = os.path.join(VERIF, "known_findings.json")
    if not os.path.exists(p):
        return []
    with open(p) as fh:
        return json.load(fh).get("findings", [])


def finding_for(pid, v, findings):
    for f in findings:
        if f.get("status") != "open" or pid not in [f.get("property")] + list(f.get("also", [])):
            continue
        keys = f.get("match", [])
        if any(k == v.finding_key or (k.endswith("*") and v.finding_key.startswith(k[:-1])) for k in keys):
            return f
    return None


_UNITS = []


def _run_unit_idx(i, ctx):
    return _run_unit(_UNITS[i], ctx)


def _run_unit(u, ctx):
    try:
        r = u.run(ctx)
    except (Unsupported,) as e:
        r = UnitResult(u.name, u.tier)
        r.undecided.append(f"UNSUPPORTED in unit {u.name}: {e}")
    except Exception:
        return "crash", f"unit {u.name} crashed:\n{traceback.format_exc()}"
    r.trusted = set(r.trusted)
    return "ok", r


def run_check(pid, units, tier, seed, level, notes=None, checker_cmd=None, assumptions=()):
    t0 = time.time()
    ctx = Ctx(pid, tier, seed)
    # evidence describes runs against /repo itself; a run against a scratch copy (PYVC_REPO set by tools/seed_run.sh, tools/mutate.sh)
    # writes its evidence next to that copy instead
    from pyvc import source as _source
    ev_dir = os.path.join(VERIF, "evidence") if os.path.realpath(_source.REPO) == os.path.realpath("/repo") \
        else os.path.join(_source.REPO, ".verif-evidence")
    os.makedirs(ev_dir, exist_ok=True)
    os.makedirs(os.path.join(VERIF, "replays"), exist_ok=True)
    ev_path = os.path.join(ev_dir, f"{pid}.json")
    for old in os.listdir(os.path.join(VERIF, "replays")):
        if old.startswith(pid + "-"):
            os.unlink(os.path.join(VERIF, "replays", old))
    results, crashed = [], []
    parallel = len(units) > 1 and os.environ.get("VERIF_SEQUENTIAL") != "1"
    if parallel:
        # units are independent: run each in its own forked process (bounded units start their own worker pools inside)
        import concurrent.futures as cf
        import multiprocessing as mp
        ex = cf.ProcessPoolExecutor(max_workers=len(units), mp_context=mp.get_context("fork"))
        hung = []
        try:
            global _UNITS
            _UNITS = list(units)           # inherited by the forked workers (contracts hold closures and cannot be pickled)
            futs = [ex.submit(_run_unit_idx, i, ctx) for i in range(len(units))]
            # watchdog: a solver that does not honour its budget must not hang the check (seen once: z3's Diophantine handler ran for hours)
            limit = float(os.environ.get("VERIF_UNIT_LIMIT_S", 1500 if tier == "quick" else 4 * 3600))
            deadline = time.time() + limit
            for u, f in zip(units, futs):
                try:
                    kind, payload = f.result(timeout=max(1.0, deadline - time.time()))
                except cf.TimeoutError:
                    hung.append(u.name)
                    continue
                except Exception:
                    kind, payload = "crash", f"unit {u.name} crashed in its worker:\n{traceback.format_exc()}"
                if kind == "ok":
                    results.append(payload)
                else:
                    crashed.append(payload)
        finally:
            if hung:
                for p_ in list(getattr(ex, "_processes", {}).values()):
                    try:
                        p_.kill()
                    except Exception:
                        pass
                ex.shutdown(wait=False, cancel_futures=True)
            else:
                ex.shutdown(wait=True)
        for name in hung:
            r = UnitResult(name, "P")
            r.undecided.append(f"UNDECIDED unit {name}: exceeded the time limit of {int(limit)} s (a back end did not honour its budget); killed -- not a verdict")
            results.append(r)
    else:
        for u in units:
            kind, payload = _run_unit(u, ctx)
            if kind == "ok":
                results.append(payload)
            else:
                crashed.append(payload)
    findings = load_findings()
    new_violations, known_hits = [], {}
    for r in results:
        for v in r.violations:
            f = finding_for(pid, v, findings)
            if f is not None:
                known_hits.setdefault(f["id"], (f, []))[1].append(v)
            else:
                new_violations.append(v)
    undecided = [x for r in results for x in r.undecided]
    errors = [x for r in results for x in r.errors] + crashed
    p_res = [r for r in results if r.tier == "P"]
    b_res = [r for r in results if r.tier == "B"]
    obligations = sum(r.obligations for r in p_res)
    discharged = sum(r.discharged for r in p_res)
    known_obl = sum(len(vs) for _, vs in known_hits.values() if vs and vs[0].obligation)
    evaluations = sum(r.evaluations for r in b_res)
    nontrivial = sum(r.nontrivial for r in b_res)
    trusted = sorted(set().union(*[r.trusted for r in results])) if results else []
    samples = []
    for r in results:
        samples.extend(r.samples[:4])
    cov = {
        "obligations": obligations,
        "discharged": discharged,
        "checker_cmd": checker_cmd or f"./run check {pid} --tier {tier}",
        "trusted_base": trusted + [a for r in results for a in r.assumptions],
        "evaluations": max(evaluations, 0),
        "distinct_nontrivial": nontrivial,
        "rule": "; ".join(f"{r.name}: {r.rule}" for r in b_res if r.rule) or "n/a (no bounded unit)",
        "samples": samples[:16] or [{"note": "no samples"}],
        "explanation": notes or "",
        "units": [{
            "name": r.name, "tier": {"P": "proved (pyvc, unbounded)", "B": "bounded stand-in (never counted as proved)"}[r.tier],
            "obligations": r.obligations, "discharged": r.discharged, "functions": r.functions, "backends": r.backends,
            "solver_time_s": round(r.solver_time, 3), "evaluations": r.evaluations, "distinct_nontrivial": r.nontrivial,
            "bound": r.bound, "exhaustive_within_bound": r.exhaustive, "wall_s": round(r.wall, 2),
            "undecided": r.undecided, "violations": len(r.violations)} for r in results],
        "known_findings_hit": [{"id": k, "what": f["what"], "obligations_failing": len(vs)} for k, (f, vs) in known_hits.items()],
        "obligations_failing_known_finding": known_obl,
        "undecided": undecided,
        "exhaustive": all(r.exhaustive for r in b_res) if b_res else False,
    }
    general = []
    if obligations:
        general = ["machine arithmetic treated as mathematical: python floats are real numbers in every obligation (IEEE rounding, overflow, NaN not modelled; "
                   "numeric refutations are replayed on the real function at tolerance 1e-6); python ints are unbounded, which is exact",
                   "python semantics as encoded by pyvc (subset, evaluation order, exceptions as listed per function; parameters not aliased unless stated); guarded by the "
                   "CPython cross-check and the specification conformance test (`./run selftest`), not proved",
                   "soundness of z3 / cvc5 (and of Lean + Mathlib where a certificate is named); termination is not proved (partial correctness)"]
    cov["trusted_base"] = cov["trusted_base"] + general
    ev = {"property_id": pid, "tier": tier, "seed": seed, "level": level, "coverage": cov,
          "assumptions": list(assumptions) + sorted({a for r in results for a in r.assumptions}) + general,
          "wall_s": round(time.time() - t0, 2), "violations": len(new_violations)}
    with open(ev_path, "w") as fh:
        json.dump(ev, fh, indent=1, default=str)
    # ---- report
    for k, (f, vs) in known_hits.items():
        print(f"KNOWN-FINDING: property={pid} {f['what']}")
    for line in undecided:
        print(line)
    print(f"[{pid}] tier={tier} P: {discharged}/{obligations} obligations discharged"
          + (f" ({known_obl} fail only on listed known findings)" if known_obl else "")
          + f"; B: {evaluations} evaluations, {nontrivial} non-trivial; wall {ev['wall_s']} s")
    if errors:
        for e in errors:
            print("CHECKER-ERROR:", e)
        return 3
    if new_violations:
        seen_paths = set()
        for i, v in enumerate(new_violations[:40]):
            rp = os.path.join(VERIF, "replays", f"{pid}-{hashlib.sha1(v.what.encode()).hexdigest()[:10]}.json")
            with open(rp, "w") as fh:
                json.dump({"property": pid, "unit": v.unit, "failed": v.what, "obligation": v.obligation, "inputs": v.inputs,
                           "detail": v.detail, "replayed_on_real_code": v.replayed,
                           "how_to_replay": f"./run replay {rp}"}, fh, indent=1, default=str)
            if rp in seen_paths:
                continue
            seen_paths.add(rp)
            print(f"VIOLATION property={pid} replay={rp}" + ("" if v.replayed else " no-failing-input-found"))
        return 1
    # stale fixed/open findings: an open finding that no longer fires is reported (not an error)
    for f in findings:
        if f.get("status") == "open" and f.get("property") == pid and f["id"] not in known_hits and f.get("match"):
            print(f"NOTE: listed finding {f['id']} did not fire in this run")
    if undecided:
        return 2
    if obligations == 0 and evaluations == 0:
        print("CHECKER-ERROR: nothing was checked")
        return 3
    return 0
